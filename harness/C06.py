"""C06 - allowing non-emitting states never makes the match worse (DESIGN.md section 5, C06).

Shape R in G-abs: match() with non_emitting_states False and True in one symbolic path (first-order families, no width).
Assertion: matched prefix with non-emitting states is not shorter; when both match the whole trace the best probability
with non-emitting states is at least the one without (1e-9).
"""
import z3

from symx import engine as E
from symx import shims, gabs
from symx.absmap import NAMED, library
from symx.common import Report, import_repo, src_hash
from symx.matchlib import TOL
from harness.relational import eff_idx

PID = 'C06'


def claims_fn(ctx):
    off = [r for r in ctx['results'] if r['gen'] == 0][-1]
    on = [r for r in ctx['results'] if r['gen'] == 1][-1]
    T = off['op'][1]
    cl = [('both_return_lists', off['states'] is not None and on['states'] is not None)]
    if off['states'] is None or on['states'] is None:
        return cl
    cl.append(('prefix_not_shorter_with_nonemitting_states', eff_idx(on) >= eff_idx(off)))
    if eff_idx(on) == T - 1 and eff_idx(off) == T - 1:
        # best achievable probability at the last observation: best emitting entry of the last column
        def best_emitting(r):
            ms = [m for m in r['mt'].lattice[T - 1].values(0) if not m.stop]
            return ms
        son = [E.lift(m.logprob) for m in best_emitting(on)]
        soff = [E.lift(m.logprob) for m in best_emitting(off)]
        cl.append(('best_probability_not_lower_with_nonemitting_states',
                   z3.And(*[z3.Or(*[a >= b - TOL for a in son]) for b in soff]) if son else False))
    return cl


def witness_fn(ctx):
    off = [r for r in ctx['results'] if r['gen'] == 0][-1]
    on = [r for r in ctx['results'] if r['gen'] == 1][-1]
    tags = []
    if eff_idx(on) > eff_idx(off):
        tags.append('nonemitting_extends_the_match')
    if any(m.obs_ne > 0 for m in on['lattice_best']):
        tags.append('nonemitting_on_best_path')
    if eff_idx(off) == off['op'][1] - 1:
        tags.append('both_complete')
    return tags


NOSYM = dict(sym_maxdist=False, sym_init=False, sym_minprob=False)
MD = dict(sym_maxdist=True, sym_init=False, sym_minprob=False)
MP = dict(sym_maxdist=False, sym_init=False, sym_minprob=True)


def ops_for(T):
    return [('match', T), ('new', dict(ne=True)), ('match', T)]


def instances(tier):
    out = []
    if tier == 'quick':
        for fam in ('simple', 'dist', 'simple_n'):
            out.append(('oneway3', NAMED['oneway3'], dict(fam=fam, T=2, ne=False, **MD), ops_for(2), {}))
            out.append(('oneway4', NAMED['oneway4'], dict(fam=fam, T=2, ne=False, **NOSYM), ops_for(2), {}))
            out.append(('tri', NAMED['tri'], dict(fam=fam, T=2, ne=False, **NOSYM), ops_for(2), {}))
            out.append(('line2', NAMED['line2'], dict(fam=fam, T=2, ne=False, **MP), ops_for(2), {}))
            out.append(('oneway3', NAMED['oneway3'], dict(fam=fam, T=2, ne=False, noise_ne=0.5, **NOSYM), ops_for(2), {}))
            out.append(('oneway3', NAMED['oneway3'], dict(fam=fam, T=3, ne=False, **NOSYM), ops_for(3), {}))
        out.append(('tri_n', NAMED['k3'], dict(fam='simple_n', T=2, ne=False, noise_ne=0.5, **NOSYM), ops_for(2), {}))
    else:
        gs = [x for x in library(3, named=('fork', 'oneway4', 'path4')) if len([1 for u in x[1] for v in x[1][u]]) <= 6]
        for name, g in gs:
            for fam in ('simple', 'dist', 'simple_n'):
                for T in (2, 3):
                    for sym in (NOSYM, MD, MP):
                        for nn in (None, 0.5, 2.0):
                            out.append((name, g, dict(fam=fam, T=T, ne=False, noise_ne=nn, **sym), ops_for(T), {}))
    return out


def run_ne_step(inst):
    """S - inductive step for the non-emitting phase: two arbitrary emitting columns t-1 and t (which states are present, their
    scores) are constructed directly, ONE real _match_non_emitting_states(t-1) is executed, and every emitting entry that existed
    in column t must still be there (same object), live, and not less probable than before: merging non-emitting chains only ever
    improves a candidate (keep-the-better semantics)."""
    import z3
    from leuvenmapmatching.matcher.base import LatticeColumn
    from leuvenmapmatching.util.segment import Segment
    from symx import engine as E, runner, realise
    from symx.absmap import make_absmap_class, make_tablemap_class, ModelTable, P, key_ps, key_pp, t_of, flipped
    from symx.matchlib import Cfg, make_matcher
    _, gname, g, fam = inst[:4]
    budget = inst[4] if len(inst) > 4 else None
    md = inst[5] if len(inst) > 5 else None      # a finite maximum distance (None: no cut-off)
    cfg = Cfg(fam=fam, T=2, ne=True, goingback=False, sym_maxdist=False, sym_init=False, sym_minprob=False)
    AbsMap, TableMap = make_absmap_class(), make_tablemap_class()
    shims.install()
    name = f"ne-step {gname} {fam}" + (f" max_dist={md}" if md else "")
    edges_only = fam != 'simple_n'
    states = [(u, v) for u in g for v in g[u] if u != v] if edges_only else list(g)

    def entry(mt, mp, st, t, score, length, prev, sym):
        o = f"o{t}"
        if isinstance(st, tuple):
            u, v = st
            k = key_ps(o, f"n{u}", f"n{v}")
            if sym:
                em = Segment(u, mp.loc[u], v, mp.loc[v], P("proj:" + k), t_of(mp, k, f"n{u}", f"n{v}"))
                dist = mp.sq(k)
            else:
                tk = mp.table.get('t:' + k)
                em = Segment(u, mp.loc[u], v, mp.loc[v], P("proj:" + k), (1.0 - tk) if flipped(f"n{u}", f"n{v}") else tk)
                dist = mp.table.get('d:' + k)
        else:
            em = Segment(st, mp.loc[st])
            dist = mp.distance(P(o), mp.loc[st])
        kw = dict(d_o=0.0, d_s=0.0) if fam == 'dist' else {}
        return mt.matching(mt, em, Segment(f"O{t}", P(o)), logprob=score, logprobe=score, logprobne=0, obs=t, length=length,
                           dist_obs=dist, prev=(set() if prev is None else {prev}), **kw)

    def build(mt, mp, present, scores, sym):
        mt.path = [P("o0"), P("o1")]
        mt.lattice = {0: LatticeColumn(0), 1: LatticeColumn(1)}
        first = None
        for st in states:
            if present.get((st, 0)):
                m = entry(mt, mp, st, 0, scores[(st, 0)], 1, None, sym)
                mt.lattice[0].upsert(m)
                first = first or m
        before = {}
        for st in states:
            if present.get((st, 1)) and first is not None:
                m = entry(mt, mp, st, 1, scores[(st, 1)], 2, first, sym)
                mt.lattice[1].upsert(m)
                before[st] = (m, scores[(st, 1)])
        return before

    def scenario():
        eng = E.get_engine()
        mp = AbsMap(g)
        mt = make_matcher(eng, mp, cfg)
        if md:
            mt.max_dist = md
        present, scores = {}, {}
        for t in (0, 1):
            for st in states:
                tag = f"{st[0]}{st[1]}_{t}" if isinstance(st, tuple) else f"{st}_{t}"
                present[(st, t)] = eng.decide(z3.Bool(f"present_{tag}"))
                if present[(st, t)]:
                    lp = z3.Real(f"lp_{tag}")
                    eng.assume(lp <= 0)
                    scores[(st, t)] = E.Sym(lp)
        before = build(mt, mp, present, scores, True)
        mt._match_non_emitting_states(0)
        return dict(mt=mt, mp=mp, before=before, present=present, scores=scores)

    def judge(mt, before, z):
        out = []
        col = mt.lattice[1].o[0] if mt.lattice[1].o else {}
        for st, (m, sc) in before.items():
            key = (st[0], st[1], 1, 0) if isinstance(st, tuple) else (st, 1, 0)
            same = col.get(key) is m and not m.stop
            out.append((f'entry_{st}_still_filed_and_live', bool(same)))
            out.append((f'entry_{st}_not_postponed_by_the_non_emitting_search', bool(m.delayed <= mt.expand_now)))
            if z:
                out.append((f'entry_{st}_not_less_probable_than_before', E.lift(m.logprob) >= E.lift(sc) - TOL))
            else:
                out.append((f'entry_{st}_not_less_probable_than_before', float(m.logprob) >= float(sc) - 1e-9))
        return out

    def claims(eng, v):
        return [(n, z3.BoolVal(f) if isinstance(f, bool) else f) for n, f in judge(v['mt'], v['before'], True)]

    def concrete(table, pres, sc):
        with shims.concrete():
            mp = TableMap(g, table, default=0.0)
            mt = make_matcher(None, mp, cfg)
            if md:
                mt.max_dist = md
            before = build(mt, mp, pres, sc, False)
            mt._match_non_emitting_states(0)
            bad = [n for n, ok in judge(mt, before, False) if not ok]
            if bad:
                return dict(desc=f"_match_non_emitting_states: {bad[:3]} with column scores { {str(k): round(float(x), 6) for k, x in sc.items()} }",
                            kind='ne_step', graph=g, fam=fam, present={str(k): bool(x) for k, x in pres.items()}, scores={str(k): float(x) for k, x in sc.items()},
                            table=dict(getattr(table, 'accessed', table)))
        return None

    def confirm(eng, model, v, cname):
        if not isinstance(v, dict):
            return None
        sc = {k: E.model_value(model, x.t) for k, x in v['scores'].items()}
        r = concrete(ModelTable(model), v['present'], sc)
        if r is None:
            return None
        names = [f"n{n}" for n in g] + ["o0", "o1"]
        rr = realise.realise(lambda tab, thr: concrete(tab, v['present'], sc), names, r['table'], {}, seed=0, budget=80)
        if rr is not None:
            rr['desc'] += f" [planar coordinates {rr['coords']}]"
            return rr
        return None

    def witness(eng, v):
        t = ['ne_step']
        if any(len(layer) for layer in v['mt'].lattice[0].o[1:]):
            t.append('ne_step_created_nonemitting_entries')
        if any(E.lift(m.logprob).get_id() != E.lift(sc).get_id() for m, sc in v['before'].values()):
            t.append('ne_step_improved_an_entry')
        return t
    mk = runner.lra_engine(8000) if fam != 'dist' else runner.nra_engine(8000)
    out = runner.explore(name, mk, scenario, claims, confirm=confirm, witness=witness, budget_s=budget)
    shims.uninstall()
    return out


def run_instance(inst):
    if inst[0] == 'ne_step':
        return run_ne_step(inst)
    return gabs.run(inst, claims_fn, witness_fn)


def main(tier):
    import_repo()
    from leuvenmapmatching.matcher import base as mb
    rep = Report(PID, tier)
    shims.selftest_halfnorm()
    rep.functions = src_hash(mb.BaseMatcher.match, mb.BaseMatcher._match_non_emitting_states, mb.BaseMatcher._match_non_emitting_states_inner,
                             mb.BaseMatcher._match_non_emitting_states_end, mb.LatticeColumn.upsert, mb.BaseMatching.update, mb.BaseMatching.next)
    budget = 60 if tier == 'quick' else 900
    from symx.common import run_instances
    steps = [('ne_step', gn, NAMED[gn], fam, 60 if tier == 'quick' else 600) for gn in ('oneway3', 'oneway4', 'tri') for fam in ('simple', 'dist', 'simple_n')]
    steps += [('ne_step', gn, NAMED[gn], fam, 60 if tier == 'quick' else 600, 3.0) for gn, fam in (('oneway3', 'simple'), ('oneway3', 'simple_n'), ('tri', 'simple'))]
    res = list(run_instances(run_instance, steps)) + gabs.run_all(rep, run_instance, instances(tier), budget, 16 * (100 if tier == 'quick' else 900))
    rep.bounds = dict(graphs="oneway3, oneway4, tri, line2, k3 (node states)" if tier == 'quick' else "all digraphs <=3 nodes, fork, oneway4, path4",
                      T="2..3", config="avoid_goingback=False, no width; max_dist or min_prob_norm symbolic; obs_noise_ne in {default, 0.5, 2.0}")
    rep.outside = ["rounding", "graphs/traces beyond the bound", "second-order transition terms (avoid_goingback=True)"]
    rep.assumptions = ["AbsMap contract (distances independent symbols: a superset of real geometries; candidates are only reported after concrete replay)",
                       "halfnorm formula shim"]
    gabs.collect(rep, res, PID, need_tags=('both_complete', 'nonemitting_on_best_path', 'nonemitting_extends_the_match', 'ne_step_created_nonemitting_entries'))
    return rep.finish("relational symbolic execution of the real match() with non-emitting states off and on in one symbolic path over abstract "
                      "geometry; monotonicity of matched prefix and best probability decided by z3")


def replay_file(path):
    import json
    import_repo()
    d = json.load(open(path))
    if d.get('kind') == 'ne_step':
        print(d['observed'])
        return 1
    return gabs.replay(path, claims_fn)

"""C06 - allowing non-emitting states never makes the match worse (DESIGN.md section 5, C06).

Shape R in G-abs: match() with non_emitting_states False and True in one symbolic path (first-order families, no width).
Assertion: matched prefix with non-emitting states is not shorter; when both match the whole trace the best probability
with non-emitting states is at least the one without (1e-9).
"""
import z3

from symx import engine as E
from symx import shims, gabs
from symx.absmap import NAMED, library
from symx.common import Report, import_repo, src_hash
from symx.matchlib import TOL
from harness.relational import eff_idx

PID = 'C06'


def claims_fn(ctx):
    off = [r for r in ctx['results'] if r['gen'] == 0][-1]
    on = [r for r in ctx['results'] if r['gen'] == 1][-1]
    T = off['op'][1]
    cl = [('both_return_lists', off['states'] is not None and on['states'] is not None)]
    if off['states'] is None or on['states'] is None:
        return cl
    cl.append(('prefix_not_shorter_with_nonemitting_states', eff_idx(on) >= eff_idx(off)))
    if eff_idx(on) == T - 1 and eff_idx(off) == T - 1:
        # best achievable probability at the last observation: best emitting entry of the last column
        def best_emitting(r):
            ms = [m for m in r['mt'].lattice[T - 1].values(0) if not m.stop]
            return ms
        son = [E.lift(m.logprob) for m in best_emitting(on)]
        soff = [E.lift(m.logprob) for m in best_emitting(off)]
        cl.append(('best_probability_not_lower_with_nonemitting_states',
                   z3.And(*[z3.Or(*[a >= b - TOL for a in son]) for b in soff]) if son else False))
    return cl


def witness_fn(ctx):
    off = [r for r in ctx['results'] if r['gen'] == 0][-1]
    on = [r for r in ctx['results'] if r['gen'] == 1][-1]
    tags = []
    if eff_idx(on) > eff_idx(off):
        tags.append('nonemitting_extends_the_match')
    if any(m.obs_ne > 0 for m in on['lattice_best']):
        tags.append('nonemitting_on_best_path')
    if eff_idx(off) == off['op'][1] - 1:
        tags.append('both_complete')
    return tags


NOSYM = dict(sym_maxdist=False, sym_init=False, sym_minprob=False)
MD = dict(sym_maxdist=True, sym_init=False, sym_minprob=False)
MP = dict(sym_maxdist=False, sym_init=False, sym_minprob=True)


def ops_for(T):
    return [('match', T), ('new', dict(ne=True)), ('match', T)]


def instances(tier):
    out = []
    if tier == 'quick':
        for fam in ('simple', 'dist', 'simple_n'):
            out.append(('oneway3', NAMED['oneway3'], dict(fam=fam, T=2, ne=False, **MD), ops_for(2), {}))
            out.append(('oneway4', NAMED['oneway4'], dict(fam=fam, T=2, ne=False, **NOSYM), ops_for(2), {}))
            out.append(('tri', NAMED['tri'], dict(fam=fam, T=2, ne=False, **NOSYM), ops_for(2), {}))
            out.append(('line2', NAMED['line2'], dict(fam=fam, T=2, ne=False, **MP), ops_for(2), {}))
            out.append(('oneway3', NAMED['oneway3'], dict(fam=fam, T=2, ne=False, noise_ne=0.5, **NOSYM), ops_for(2), {}))
            out.append(('oneway3', NAMED['oneway3'], dict(fam=fam, T=3, ne=False, **NOSYM), ops_for(3), {}))
        out.append(('tri_n', NAMED['k3'], dict(fam='simple_n', T=2, ne=False, noise_ne=0.5, **NOSYM), ops_for(2), {}))
    else:
        gs = [x for x in library(3, named=('fork', 'oneway4', 'path4')) if len([1 for u in x[1] for v in x[1][u]]) <= 6]
        for name, g in gs:
            for fam in ('simple', 'dist', 'simple_n'):
                for T in (2, 3):
                    for sym in (NOSYM, MD, MP):
                        for nn in (None, 0.5, 2.0):
                            out.append((name, g, dict(fam=fam, T=T, ne=False, noise_ne=nn, **sym), ops_for(T), {}))
    return out


def run_instance(inst):
    return gabs.run(inst, claims_fn, witness_fn)


def main(tier):
    import_repo()
    from leuvenmapmatching.matcher import base as mb
    rep = Report(PID, tier)
    shims.selftest_halfnorm()
    rep.functions = src_hash(mb.BaseMatcher.match, mb.BaseMatcher._match_non_emitting_states, mb.BaseMatcher._match_non_emitting_states_inner,
                             mb.BaseMatcher._match_non_emitting_states_end, mb.LatticeColumn.upsert, mb.BaseMatching.update, mb.BaseMatching.next)
    budget = 60 if tier == 'quick' else 900
    res = gabs.run_all(rep, run_instance, instances(tier), budget, 16 * (100 if tier == 'quick' else 900))
    rep.bounds = dict(graphs="oneway3, oneway4, tri, line2, k3 (node states)" if tier == 'quick' else "all digraphs <=3 nodes, fork, oneway4, path4",
                      T="2..3", config="avoid_goingback=False, no width; max_dist or min_prob_norm symbolic; obs_noise_ne in {default, 0.5, 2.0}")
    rep.outside = ["rounding", "graphs/traces beyond the bound", "second-order transition terms (avoid_goingback=True)"]
    rep.assumptions = ["AbsMap contract (distances independent symbols: a superset of real geometries; candidates are only reported after concrete replay)",
                       "halfnorm formula shim"]
    gabs.collect(rep, res, PID, need_tags=('both_complete', 'nonemitting_on_best_path', 'nonemitting_extends_the_match'))
    return rep.finish("relational symbolic execution of the real match() with non-emitting states off and on in one symbolic path over abstract "
                      "geometry; monotonicity of matched prefix and best probability decided by z3")


def replay_file(path):
    import_repo()
    return gabs.replay(path, claims_fn)

"""CrossHair harness (PEP-316 contracts) for C04: the nodes-only view of a walk of edge states.
Run: python -m crosshair check --report_all --per_condition_timeout 20 harness/crosshair_c04.py"""
from leuvenmapmatching.matcher.base import BaseMatcher


def _only_nodes_chain(n0: int, n1: int, n2: int, n3: int, stay1: bool, stay2: bool) -> bool:
    """
    A walk of edge states (stay on an edge or move to an edge leaving its end node) gives pairwise different
    consecutive nodes and exactly the chain of visited nodes.
    pre: n0 != n1 and n1 != n2 and n2 != n3
    post: _
    """
    m = BaseMatcher.__new__(BaseMatcher)
    states = [(n0, n1)]
    if stay1:
        states.append((n0, n1))
    states.append((n1, n2))
    if stay2:
        states.append((n1, n2))
    states.append((n2, n3))
    nodes = m.node_path_to_only_nodes(states)
    ok = all(a != b for a, b in zip(nodes, nodes[1:]))
    return ok and nodes == [n0, n1, n2, n3]


def _only_nodes_mixed(a: int, b: int, c: int) -> bool:
    """
    Node-and-edge walk: node a, edge (a,b), node b, node c.
    pre: a != b and b != c
    post: _
    """
    m = BaseMatcher.__new__(BaseMatcher)
    nodes = m.node_path_to_only_nodes([a, (a, b), b, c])
    return nodes == [a, b, c]


def _only_nodes_uturn(a: int, b: int) -> bool:
    """
    Edge (a,b) followed by the opposite edge (b,a): a, b, a.
    pre: a != b
    post: _
    """
    m = BaseMatcher.__new__(BaseMatcher)
    nodes = m.node_path_to_only_nodes([(a, b), (b, a), (b, a)])
    return nodes == [a, b, a]

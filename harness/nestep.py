"""Relational inductive step for the non-emitting phase (used by C10 and C19).

Two arbitrary emitting columns t-1 and t (which states are present, arbitrary scores <= 0) are constructed directly - twice, on two
matchers over the same abstract map - and ONE real BaseMatcher._match_non_emitting_states(t-1) is executed on each; the two runs differ
in exactly one respect that must not matter:

  mode 'order'     the entries of the columns are filed in reverse order (lattice dictionaries iterate in insertion order, which in a
                   real run follows the map's listing order): C10
  mode 'loglevel'  the second run happens with the package logger at DEBUG: C19

Claim: both runs end with the same live entries (column t emitting layer and every non-emitting layer of column t-1), each with the
same score.  A counterexample is confirmed on a concrete table map and then realised on planar coordinates (symx/realise.py).
"""
import logging

import z3

from symx import engine as E
from symx import shims, runner, realise
from symx.absmap import make_absmap_class, make_tablemap_class, ModelTable, P, key_ps, t_of, flipped
from symx.matchlib import Cfg, make_matcher

TOL = z3.Q(1, 10 ** 9)
LOGGER = "be.kuleuven.cs.dtai.mapmatching"


def run(inst):
    from leuvenmapmatching.matcher.base import LatticeColumn
    from leuvenmapmatching.util.segment import Segment
    _, mode, gname, g, fam = inst[:5]
    budget = inst[5] if len(inst) > 5 else None
    kw = dict(inst[6]) if len(inst) > 6 else {}
    only = {0: kw.pop('only0', None), 1: kw.pop('only1', None)}      # restrict which states may be present in column 0 / 1
    cfg = Cfg(fam=fam, T=2, ne=True, goingback=False, sym_maxdist=False, sym_init=False, sym_minprob=False, **kw)
    AbsMap, TableMap = make_absmap_class(), make_tablemap_class()
    shims.install()
    name = f"ne-step[{mode}] {gname} {fam}" + (f" {kw}" if kw else "") + (f" columns restricted to {only}" if only[0] or only[1] else "")
    edges_only = fam != 'simple_n'
    states = [(u, v) for u in g for v in g[u] if u != v] if edges_only else list(g)

    def entry(mt, mp, st, t, score, length, prev, sym):
        o = f"o{t}"
        if isinstance(st, tuple):
            u, v = st
            k = key_ps(o, f"n{u}", f"n{v}")
            if sym:
                em = Segment(u, mp.loc[u], v, mp.loc[v], P("proj:" + k), t_of(mp, k, f"n{u}", f"n{v}"))
                dist = mp.sq(k)
            else:
                tk = mp.table.get('t:' + k)
                em = Segment(u, mp.loc[u], v, mp.loc[v], P("proj:" + k), (1.0 - tk) if flipped(f"n{u}", f"n{v}") else tk)
                dist = mp.table.get('d:' + k)
        else:
            em = Segment(st, mp.loc[st])
            dist = mp.distance(P(o), mp.loc[st])
        kw2 = dict(d_o=0.0, d_s=0.0) if fam == 'dist' else {}
        return mt.matching(mt, em, Segment(f"O{t}", P(o)), logprob=score, logprobe=score, logprobne=0, obs=t, length=length,
                           dist_obs=dist, prev=(set() if prev is None else {prev}), **kw2)

    def build(mt, mp, present, scores, sym, reverse):
        mt.path = [P("o0"), P("o1")]
        mt.lattice = {0: LatticeColumn(0), 1: LatticeColumn(1)}
        order = list(reversed(states)) if reverse else list(states)
        first = None
        for st in order:
            if present.get((st, 0)):
                m = entry(mt, mp, st, 0, scores[(st, 0)], 1, None, sym)
                mt.lattice[0].upsert(m)
                if st == [s for s in states if present.get((s, 0))][0]:
                    first = m          # the same predecessor state in both runs
        for st in order:
            if present.get((st, 1)) and first is not None:
                mt.lattice[1].upsert(entry(mt, mp, st, 1, scores[(st, 1)], 2, first, sym))

    def step(mt, second):
        lg = logging.getLogger(LOGGER)
        if second and mode == 'loglevel':
            lg.setLevel(logging.DEBUG)
        try:
            mt._match_non_emitting_states(0)
        finally:
            lg.setLevel(logging.ERROR)

    def live(mt):
        """{(column, layer, shortkey): score} of the live entries"""
        out = {}
        for t in (0, 1):
            for li, layer in enumerate(mt.lattice[t].o):
                if t == 0 and li == 0:
                    continue
                for m in layer.values():
                    if not m.stop:
                        out[(t, li, m.shortkey)] = m.logprob
        return out

    def scenario():
        eng = E.get_engine()
        mp = AbsMap(g)
        present, scores = {}, {}
        for t in (0, 1):
            for st in states:
                tag = f"{st[0]}{st[1]}_{t}" if isinstance(st, tuple) else f"{st}_{t}"
                if only[t] is not None and st not in [tuple(x) if isinstance(x, list) else x for x in only[t]]:
                    present[(st, t)] = False
                    continue
                present[(st, t)] = eng.decide(z3.Bool(f"present_{tag}"))
                if present[(st, t)]:
                    lp = z3.Real(f"lp_{tag}")
                    eng.assume(lp <= 0)
                    scores[(st, t)] = E.Sym(lp)
        runs = []
        for second in (False, True):
            mt = make_matcher(eng, mp, cfg)
            build(mt, mp, present, scores, True, reverse=(second and mode == 'order'))
            step(mt, second)
            runs.append(live(mt))
        return dict(runs=runs, present=present, scores=scores)

    def claims(eng, v):
        a, b = v['runs']
        cl = [('same_live_entries', z3.BoolVal(set(a) == set(b)))]
        if set(a) == set(b):
            for k in a:
                x, y = E.lift(a[k]), E.lift(b[k])
                cl.append((f'same_score_{k}', z3.And(x <= y + TOL, y <= x + TOL), z3.And(x <= y + z3.Q(1, 1000), y <= x + z3.Q(1, 1000))))
        return cl

    def concrete(table, pres, sc):
        with shims.concrete():
            runs = []
            for second in (False, True):
                mp = TableMap(g, table, default=0.0)
                mt = make_matcher(None, mp, cfg)
                build(mt, mp, pres, sc, False, reverse=(second and mode == 'order'))
                step(mt, second)
                runs.append({k: float(x) for k, x in live(mt).items()})
            a, b = runs
            bad = None
            if set(a) != set(b):
                bad = f"live entries differ: only in run 1 {sorted(set(a) - set(b), key=str)}, only in run 2 {sorted(set(b) - set(a), key=str)}"
            else:
                d = [(k, a[k], b[k]) for k in a if abs(a[k] - b[k]) > 1e-7]
                if d:
                    bad = f"scores differ: {d[:3]}"
            if bad:
                what = "columns filed in reverse order" if mode == 'order' else "logger at DEBUG"
                return dict(desc=f"_match_non_emitting_states, second run with {what}: {bad}; column scores { {str(k): round(float(x), 6) for k, x in sc.items()} }",
                            kind='ne_step_rel', mode=mode, graph=g, fam=fam, present={str(k): bool(x) for k, x in pres.items()},
                            scores={str(k): float(x) for k, x in sc.items()}, table=dict(getattr(table, 'accessed', table)))
        return None

    def confirm(eng, model, v, cname):
        if not isinstance(v, dict):
            return None
        sc = {k: E.model_value(model, x.t) for k, x in v['scores'].items()}
        r = concrete(ModelTable(model), v['present'], sc)
        if r is None:
            return None
        names = [f"n{n}" for n in g] + ["o0", "o1"]
        rr = realise.realise(lambda tab, thr: concrete(tab, v['present'], sc), names, r['table'], {}, seed=0, budget=80)
        if rr is not None:
            rr['desc'] += f" [planar coordinates { {k: [round(float(c), 4) for c in p] for k, p in rr['coords'].items()} }]"
            rr['coords'] = {k: [float(c) for c in p] for k, p in rr['coords'].items()}
            return rr
        return None

    def witness(eng, v):
        a = v['runs'][0]
        t = ['ne_step_rel']
        if any(k[0] == 0 for k in a):
            t.append('ne_step_created_nonemitting_entries')
        if any(k[0] == 0 and k[1] >= 2 for k in a):
            t.append('ne_step_two_nonemitting_layers')
        return t
    mk = runner.lra_engine(8000) if fam != 'dist' else runner.nra_engine(8000)
    try:
        out = runner.explore(name, mk, scenario, claims, confirm=confirm, witness=witness, budget_s=budget)
    finally:
        logging.getLogger(LOGGER).setLevel(logging.ERROR)
        shims.uninstall()
    return out


def replay(d):
    print(d.get('observed') or d.get('desc'))
    return 1

"""C19 - turning on debug logging does not change results (DESIGN.md section 5, C19).

Shape R in G-abs: match() at ERROR level and at DEBUG level (NullHandler attached) on two fresh matchers inside one symbolic
path, cut-offs symbolic so that stopped candidates exist.  Assertion: same returned states, index, best path, probabilities.
"""
import z3

from symx import engine as E
from symx import shims, gabs
from symx.absmap import NAMED, library
from symx.common import Report, import_repo, src_hash, load_findings
from symx.matchlib import TOL
from harness.relational import same_result

PID = 'C19'


def claims_fn(ctx):
    err = [r for r in ctx['results'] if r['gen'] == 0][-1]
    dbg = [r for r in ctx['results'] if r['gen'] == 1][-1]
    cl = [('debug_run_returns_a_state_list', dbg['states'] is not None),
          ('error_run_returns_a_state_list', err['states'] is not None)]
    if err['states'] is None or dbg['states'] is None:
        return cl
    # same index and probability; the path may differ only between exactly equally probable alternatives (C10's caveat:
    # the stopped entries kept under DEBUG change the iteration order of the lattice sets)
    cl += same_result(err, dbg, 'error_vs_debug')
    cl.append(('no_stopped_entry_on_debug_best_path', not any(m.stop for m in dbg['lattice_best'])))
    if err['states'] and dbg['states'] and [m.key for m in err['lattice_best']] == [m.key for m in dbg['lattice_best']]:
        pairs = list(zip(err['lattice_best'], dbg['lattice_best']))
        cl.append(('same_probabilities_along_best_path',
                   z3.And(*[z3.And(E.lift(a.logprob) <= E.lift(b.logprob) + TOL, E.lift(b.logprob) <= E.lift(a.logprob) + TOL) for a, b in pairs])))
    return cl


def witness_fn(ctx):
    dbg = [r for r in ctx['results'] if r['gen'] == 1][-1]
    tags = []
    from symx import latticelib as LL
    if any(m.stop for _, _, _, m in LL.all_entries(dbg['mt'])):
        tags.append('stopped_entries_kept_under_debug')
    if dbg['states']:
        tags.append('nonempty')
    else:
        tags.append('empty')
    if dbg['states'] and dbg['idx'] < dbg['op'][1] - 1:
        tags.append('early_stop')
    return tags


NOSYM = dict(sym_maxdist=False, sym_init=False, sym_minprob=False)
MD = dict(sym_maxdist=True, sym_init=False, sym_minprob=False)
MDI = dict(sym_maxdist=True, sym_init=True, sym_minprob=False)
MP = dict(sym_maxdist=False, sym_init=False, sym_minprob=True)


def ops_for(T, extra=()):
    return [('match', T)] + list(extra) + [('loglevel', 'DEBUG'), ('new', {}), ('match', T)]


def instances(tier):
    out = []
    if tier == 'quick':
        for fam in ('simple', 'dist', 'simple_n'):
            out.append(('oneway2', NAMED['oneway2'], dict(fam=fam, T=1, ne=False, **MDI), ops_for(1), {}))
            out.append(('oneway2', NAMED['oneway2'], dict(fam=fam, T=2, ne=False, **MDI), ops_for(2), {}))
            out.append(('line2', NAMED['line2'], dict(fam=fam, T=2, ne=False, **MD), ops_for(2), {}))
            out.append(('oneway3', NAMED['oneway3'], dict(fam=fam, T=2, ne=True, **MD), ops_for(2), {}))
            out.append(('oneway3', NAMED['oneway3'], dict(fam=fam, T=3, ne=False, **MP), ops_for(3), {}))
            out.append(('oneway3', NAMED['oneway3'], dict(fam=fam, T=2, ne=False, width=1, **MDI), ops_for(2), {}))
            out.append(('oneway3', NAMED['oneway3'], dict(fam=fam, T=3, ne=False, width=1, **MD), ops_for(3), {}))
        out.append(('oneway4', NAMED['oneway4'], dict(fam='simple', T=2, ne=True, **MD), ops_for(2), {}))
        # histories: jump over a gap (continue_with_distance) then extension, and widening - at both levels
        gap = {"A": ["B"], "B": [], "C": ["D"], "D": []}
        for fam in ('simple', 'dist'):
            h = [('match', 3), ('continue', 1, 1), ('extend', 3)]
            out.append(('gap2', gap, dict(fam=fam, T=3, ne=False, **MD), h + [('loglevel', 'DEBUG'), ('new', {})] + h, {}))
            h = [('match', 3), ('widen', 2)]
            out.append(('line2', NAMED['line2'], dict(fam=fam, T=3, ne=False, width=1, **MD), h + [('loglevel', 'DEBUG'), ('new', {})] + h, {}))
        out.append(('tri', NAMED['k3'], dict(fam='simple_n', T=2, ne=True, **MD), ops_for(2), {}))
    else:
        gs = [x for x in library(3, named=('fork', 'oneway4')) if len([1 for u in x[1] for v in x[1][u]]) <= 4]
        for name, g in gs:
            for fam in ('simple', 'dist', 'simple_n'):
                for ne in (False, True):
                    for T in (1, 2, 3):
                        for sym in (MD, MDI, MP):
                            out.append((name, g, dict(fam=fam, T=T, ne=ne, **sym), ops_for(T), {}))
                    out.append((name, g, dict(fam=fam, T=2, ne=ne, width=1, **MD), ops_for(2), {}))
                    out.append((name, g, dict(fam=fam, T=3, ne=ne, width=1, **MD), ops_for(3), {}))
    return out


def run_prune_stopped(inst):
    """K/R: consumers skip stopped entries - the real prune on a column of live entries and on the same column plus stopped
    entries (which only exist under DEBUG) must treat the live entries identically."""
    from symx import runner
    from leuvenmapmatching.matcher.base import LatticeColumn, BaseMatching
    from leuvenmapmatching.util.segment import Segment
    _, n, k, W = inst[:4]

    def build(vals, svals, with_stopped):
        col, ms = LatticeColumn(0), []
        for i in range(n):
            m = BaseMatching(None, Segment(f"N{i}", (0.0, float(i)), f"M{i}", (1.0, float(i))), Segment("O0", (0.0, 0.0)),
                             logprob=vals[i], obs=0, obs_ne=0, stop=False, delayed=0)
            col.upsert(m)
            ms.append(m)
        if with_stopped:
            for j in range(k):
                col.upsert(BaseMatching(None, Segment(f"S{j}", (0.0, 9.0), f"T{j}", (1.0, 9.0)), Segment("O0", (0.0, 0.0)),
                                        logprob=svals[j], obs=0, obs_ne=0, stop=True, delayed=0))
        return col, ms

    def both(vals, svals):
        outs = []
        for ws in (False, True):
            col, ms = build(vals, svals, ws)
            ret = col.prune(0, W, 0, None)
            outs.append(([m.delayed for m in ms], ret))
        return outs

    def scenario():
        eng = E.get_engine()
        vals = [eng.fresh(f"lp{i}") for i in range(n)]
        svals = [eng.fresh(f"slp{j}") for j in range(k)]
        return dict(outs=both(vals, svals), vals=vals, svals=svals)

    def claims(eng, v):
        (da, ra), (db, rb) = v['outs']
        same_ret = (ra is rb) or (ra is None and rb is None) or (isinstance(ra, E.Sym) and isinstance(rb, E.Sym) and ra.t.get_id() == rb.t.get_id())
        return [('stopped_entries_do_not_change_which_live_entries_are_expanded', z3.BoolVal(da == db)),
                ('stopped_entries_do_not_change_the_threshold', z3.BoolVal(bool(same_ret)) if not (isinstance(ra, E.Sym) and isinstance(rb, E.Sym)) else ra.t == rb.t)]

    def confirm(eng, model, v, cname):
        vals = [E.model_value(model, x.t) for x in v['vals']]
        svals = [E.model_value(model, x.t) for x in v['svals']]
        (da, ra), (db, rb) = both(vals, svals)
        if da != db or ra != rb:
            return dict(desc=f"prune(W={W}) live scores {vals}: without stopped entries delayed={da} ret={ra}; with stopped entries {svals}: delayed={db} ret={rb}",
                        kind='prune_stopped', vals=vals, svals=svals, W=W)
        return None
    return runner.explore(f"prune-ignores-stopped n={n} stopped={k} W={W}", runner.lra_engine(5000), scenario, claims, confirm=confirm,
                          witness=lambda eng, v: ['prune_postponed'] if any(d > 0 for d in v['outs'][0][0]) else [])


def run_instance(inst):
    if inst[0] == 'prune_stopped':
        return run_prune_stopped(inst)
    if inst[0] == 'ne_step_rel':
        from harness import nestep
        return nestep.run(inst)
    # continue_with_distance after a COMPLETE match raises IndexError in best_last_matches at either log level: totality of that
    # call is outside C19 (as in C05 / C09); such paths are counted as exception_outside_claim
    return gabs.run(inst, claims_fn, witness_fn, exc_is_violation=not any(o[0] == 'continue' for o in inst[3]))


def main(tier):
    import_repo()
    from leuvenmapmatching.matcher import base as mb
    rep = Report(PID, tier)
    shims.selftest_halfnorm()
    rep.functions = src_hash(mb.BaseMatching.next, mb.BaseMatching.first, mb.BaseMatcher.match, mb.BaseMatcher._create_start_nodes,
                             mb.BaseMatcher._match_states, mb.BaseMatcher._match_non_emitting_states_inner,
                             mb.BaseMatcher._match_non_emitting_states_end, mb.LatticeColumn.prune, mb.LatticeColumn.__len__)
    budget = 60 if tier == 'quick' else 900
    from symx.common import run_instances
    sb = 60 if tier == 'quick' else 600
    steps = [('ne_step_rel', 'loglevel', gn, NAMED[gn], fam, sb) for gn, fam in (('oneway4', 'simple'), ('oneway4', 'dist'), ('oneway3', 'simple_n'), ('tri', 'simple'), ('fork', 'dist'))]
    kres = run_instances(run_instance, steps + [('prune_stopped', n, k, W) for n in (2, 3) for k in (1, 2) for W in range(1, n + 1)])
    res = list(kres) + gabs.run_all(rep, run_instance, instances(tier), budget, 16 * (100 if tier == 'quick' else 900))
    rep.bounds = dict(graphs="oneway2, line2, oneway3, oneway4, k3 (node states)" if tier == 'quick' else "all digraphs <=3 nodes/<=4 edges, fork, oneway4",
                      T="1..3", config="max_dist (+max_dist_init) or min_prob_norm symbolic so that stopped candidates exist; three families; non-emitting on/off; width 1")
    rep.outside = ["log output itself", "rounding", "graphs/traces beyond the bound"]
    rep.assumptions = ["NullHandler on the package logger; formatting of symbolic numbers in log f-strings returns a placeholder (Sym.__format__)"]
    gabs.collect(rep, res, PID, need_tags=('stopped_entries_kept_under_debug', 'nonempty', 'early_stop', 'ne_step_two_nonemitting_layers'))
    return rep.finish("relational symbolic execution of the real match() at ERROR and DEBUG level in one symbolic path over abstract geometry; "
                      "equality of states, index, best path and probabilities decided by z3")


def replay_file(path):
    import json
    import_repo()
    d = json.load(open(path))
    if d.get('kind') == 'prune_stopped':
        print(d['observed'])
        return 1
    if d.get('kind') == 'ne_step_rel':
        from harness import nestep
        return nestep.replay(d)
    return gabs.replay(path, claims_fn)

"""C20 - path interpolation densifies without moving anything (DESIGN.md section 5, C20).

K: the real dist_euclidean.interpolate_path on traces of 1-3 symbolic points with symbolic spacing dd>0; the number of
subdivisions is forked over 1..MAXSUB (unwinding: paths needing more are reported as outside the bound).  Claims: first/last
kept, originals kept in order, inserted points are p1 + (k/dt)(p2-p1) in order, no gap larger than dd.
The latitude-longitude variant is checked structurally through symbolic stand-ins of the geodesic primitives (see below).
"""
import math

import z3

from symx import engine as E
from symx import shims, runner
from symx.common import Report, run_instances, import_repo, src_hash, write_replay

PID = 'C20'
MAXSUB = 5
SLACK = z3.Q(1, 10 ** 9)


def d2(p, q):
    return (p[0] - q[0]) * (p[0] - q[0]) + (p[1] - q[1]) * (p[1] - q[1])


def Lp(p):
    return (E.lift(p[0]), E.lift(p[1]))


def concrete_check(path, dd, out):
    """Concrete oracle on doubles.  Returns None or a description."""
    if out[0] != path[0] or out[-1] != path[-1]:
        return "first/last point not kept"
    i = 0
    for a, b in zip(path, path[1:]):
        # out[i] must be a
        if out[i] != a:
            return f"original point {a} not found in order"
        j = i + 1
        ins = []
        while j < len(out) and out[j] != b:
            ins.append(out[j])
            j += 1
        if j >= len(out):
            return f"original point {b} not found in order"
        seglen = math.dist(a[:2], b[:2])
        prev_t = 0.0
        for p in ins:
            vx, vy = b[0] - a[0], b[1] - a[1]
            t = ((p[0] - a[0]) * vx + (p[1] - a[1]) * vy) / (seglen ** 2) if seglen else 0.0
            off = math.dist(p, (a[0] + t * vx, a[1] + t * vy))
            if off > 1e-9 * max(1.0, seglen) or t < prev_t - 1e-12 or t > 1 + 1e-9:
                return f"inserted point {p} not on the connection {a}->{b} in order (t={t}, off={off})"
            prev_t = t
        # skip duplicates of b
        while j + 1 < len(out) and out[j + 1] == b and (a, b) != (b, b):
            j += 1
        i = j
    for p, q in zip(out, out[1:]):
        if math.dist(p[:2], q[:2]) > dd * (1 + 1e-9) + 1e-12:
            return f"gap {math.dist(p[:2], q[:2])} between {p} and {q} larger than spacing {dd}"
    return None


EARTH_R = 6371000.0
LATLON_GRID = [   # (trace in degrees, spacings in metres): street scale, long legs (equal chord steps are not equal arc steps), hemispheres
    ([(50.8790, 4.7000), (50.8830, 4.7050), (50.8830, 4.7120)], [50.0, 100.0, 33.3, 1000.0]),
    ([(50.8503, 4.3517), (39.9334, 32.8597)], [100517.5, 105000.0, 100000.0, 400000.0, 1256600.0]),
    ([(-33.9, 151.2), (-37.8, 144.9), (-31.95, 115.86)], [50000.0, 123456.0, 800000.0]),
    ([(-2.0, 30.0), (3.0, 31.0)], [10000.0, 190000.0, 290000.0]),
    ([(60.0, 10.0), (60.0, 10.01), (60.0, 10.01), (60.002, 10.01)], [25.0, 120.0]),
    ([(10.0, 20.0)], [5.0]),
]


def _vec(p):
    la, lo = math.radians(p[0]), math.radians(p[1])
    return (math.cos(la) * math.cos(lo), math.cos(la) * math.sin(lo), math.sin(la))


def _ang(a, b):
    cx, cy, cz = a[1] * b[2] - a[2] * b[1], a[2] * b[0] - a[0] * b[2], a[0] * b[1] - a[1] * b[0]
    return math.atan2(math.sqrt(cx * cx + cy * cy + cz * cz), a[0] * b[0] + a[1] * b[1] + a[2] * b[2])


def concrete_latlon_check(path, dd, out):
    """Independent spherical oracle on doubles (unit vectors, no haversine / bearing / destination): originals kept in order, inserted
    points on the minor great-circle arc between the surrounding originals, in order along it, no gap above the spacing."""
    if tuple(out[0]) != tuple(path[0]) or tuple(out[-1]) != tuple(path[-1]):
        return "first/last point not kept"
    i = 0
    for a, b in zip(path, path[1:]):
        if tuple(out[i]) != tuple(a):
            return f"original point {a} not found in order"
        j, ins = i + 1, []
        while j < len(out) and tuple(out[j]) != tuple(b):
            ins.append(out[j])
            j += 1
        if j >= len(out):
            return f"original point {b} not found in order"
        va, vb = _vec(a), _vec(b)
        ab = _ang(va, vb)
        prev = 0.0
        for p in ins:
            vp = _vec(p)
            ap, pb = _ang(va, vp), _ang(vp, vb)
            if abs(ap + pb - ab) * EARTH_R > 1e-3 + 1e-9 * ab * EARTH_R:
                return f"inserted point {p} is not on the great-circle connection {a}->{b} (detour {abs(ap + pb - ab) * EARTH_R} m)"
            if ap < prev - 1e-12:
                return f"inserted point {p} is out of order along {a}->{b}"
            prev = ap
        i = j
    for p, q in zip(out, out[1:]):
        g = _ang(_vec(p), _vec(q)) * EARTH_R
        if g > dd * (1 + 1e-9) + 1e-6:
            return f"gap {g} m between {p} and {q} larger than spacing {dd} m"
    return None


def latlon_grid_replay():
    """Runs the real dist_latlon.interpolate_path (real trigonometry, plain floats) on the grid; returns None or a description + input."""
    from leuvenmapmatching.util import dist_latlon as dl
    for path, dds in LATLON_GRID:
        for dd in dds:
            try:
                out = dl.interpolate_path(list(path), dd)
            except Exception as e:
                return dict(desc=f"dist_latlon.interpolate_path({path}, {dd}) raised {e!r}", path=[list(p) for p in path], dd=dd, kind='latlon_grid')
            bad = concrete_latlon_check(path, dd, out)
            if bad:
                return dict(desc=f"dist_latlon.interpolate_path({path}, {dd}): {bad}", path=[list(p) for p in path], dd=dd, kind='latlon_grid')
    return None


class GeoPoint(tuple):
    """result of the stand-in destination_radians: remembers (start, bearing, distance term)."""
    def __new__(cls, lat, lon, start, brng, dist):
        o = tuple.__new__(cls, (lat, lon))
        o.start, o.brng, o.dist = start, brng, dist
        return o


def run_latlon_struct(inst):
    """Modular/structural check of dist_latlon.interpolate_path: the geodesic primitives are replaced by symbolic stand-ins
    (distance: fresh D>=0 per point pair; bearing: opaque token per pair; destination(p, b, s): opaque point that remembers
    (p, b, s)); radians/degrees are identities.  Claims: inserted point k of a segment is destination(p1, bearing(p1,p2), k*D/dt),
    distances increase, step D/dt <= dd.  That these primitives are correct is C14's subject."""
    from leuvenmapmatching.util import dist_latlon as dl
    kind, npts = inst[:2]
    maxsub = inst[3] if len(inst) > 3 else MAXSUB
    saved = {k: getattr(dl, k) for k in ('radians', 'degrees', 'ceil', 'distance_haversine_radians', 'bearing_radians', 'destination_radians',
                                         'cos', 'sin', 'asin', 'acos', 'atan2', 'sqrt')}
    from symx.opaque import Opaque
    opq = Opaque()
    memo = {}

    def install():
        eng = E.get_engine()
        sm = E.ShimMath(max_ceil=maxsub)
        dl.radians = lambda x: x
        dl.degrees = lambda x: x
        dl.ceil = sm.ceil
        # a tree that computes the inserted points in another way (own trigonometry instead of the three primitives) still runs:
        # its trigonometry is uninterpreted, the structure claims fail, and the verdict is left to the concrete grid (see confirm)
        opq.reset()
        for n in ('cos', 'sin', 'asin', 'acos', 'atan2', 'sqrt'):
            setattr(dl, n, opq.uf(n))

        def dist(lat1, lon1, lat2, lon2, radius=None):
            k = ('d', lat1.t.get_id(), lon1.t.get_id(), lat2.t.get_id(), lon2.t.get_id())
            if k not in memo:
                d = eng.fresh(f"D{len(memo)}")
                eng.assume(d.t >= 0)
                memo[k] = d
            return memo[k]

        def bearing(lat1, lon1, lat2, lon2):
            return ('bearing', lat1.t.get_id(), lon1.t.get_id(), lat2.t.get_id(), lon2.t.get_id())

        def dest(lat1, lon1, brng, s):
            n = len(memo)
            lat, lon = eng.fresh(f"dlat{n}"), eng.fresh(f"dlon{n}")
            gp = GeoPoint(lat, lon, (lat1.t.get_id(), lon1.t.get_id()), brng, s)
            memo[('p', lat.t.get_id())] = gp      # interpolate_path re-packs the result as a plain tuple
            return gp
        dl.distance_haversine_radians, dl.bearing_radians, dl.destination_radians = dist, bearing, dest

    def scenario():
        memo.clear()
        eng = E.get_engine()
        install()
        pts = [(eng.fresh(f"lat{i}"), eng.fresh(f"lon{i}")) for i in range(npts)]
        dd = eng.fresh("dd")
        eng.assume(dd.t > 0)
        out = dl.interpolate_path(pts, dd)
        return dict(pts=pts, dd=dd, out=out, memo=dict(memo))

    def claims(eng, v):
        pts, dd, out = v['pts'], v['dd'], v['out']
        cl = [('first_point_kept', z3.BoolVal(out[0] is pts[0])), ('last_point_kept', z3.BoolVal(out[-1] is pts[-1]))]
        idx, pos = [], 0
        for p in pts:
            while pos < len(out) and out[pos] is not p:
                pos += 1
            idx.append(pos)
            pos += 1
        ok = all(i < len(out) for i in idx)
        cl.append(('originals_kept_in_order', z3.BoolVal(ok)))
        if not ok:
            return cl
        for s in range(len(pts) - 1):
            a, b = pts[s], pts[s + 1]
            ins = out[idx[s] + 1: idx[s + 1]]
            dt = len(ins)
            D = v['memo'].get(('d', a[0].t.get_id(), a[1].t.get_id(), b[0].t.get_id(), b[1].t.get_id()))
            exp_b = ('bearing', a[0].t.get_id(), a[1].t.get_id(), b[0].t.get_id(), b[1].t.get_id())
            if dt == 0:
                if D is not None:
                    cl.append((f'segment_{s}_short_enough', D.t <= dd.t))
                continue
            prev = z3.RealVal(0)
            for k, p in enumerate(ins, start=1):
                p = v['memo'].get(('p', p[0].t.get_id())) if isinstance(p[0], E.Sym) else None
                good = p is not None and p.start == (a[0].t.get_id(), a[1].t.get_id()) and p.brng == exp_b
                cl.append((f'inserted_{s}_{k}_is_destination_from_p1_along_bearing_to_p2', z3.BoolVal(bool(good))))
                if good and D is not None:
                    sk = E.lift(p.dist)
                    cl.append((f'inserted_{s}_{k}_at_k_over_dt_of_the_distance', z3.And(sk <= z3.Q(k, dt) * D.t + SLACK, sk >= z3.Q(k, dt) * D.t - SLACK)))
                    cl.append((f'step_{s}_{k}_positive_and_not_larger_than_spacing', z3.And(sk > prev, sk - prev <= dd.t + SLACK)))
                    prev = sk
        return cl

    grid = {}

    def confirm(eng, model, v, cname):
        # The structural claims are tied to one way of writing the loop (distance, bearing, destination): a failing claim is only a
        # candidate.  It is reported when the unmodified function, with the real trigonometry, breaks the property on a grid of
        # concrete traces judged by an independent spherical oracle (evaluated once per instance: it does not depend on the model).
        if 'r' not in grid:
            restore = {k: getattr(dl, k) for k in saved}
            for k, f in saved.items():
                setattr(dl, k, f)
            try:
                with shims.concrete():
                    grid['r'] = latlon_grid_replay()
            finally:
                for k, f in restore.items():
                    setattr(dl, k, f)
        r = grid['r']
        if r is None:
            return None
        return dict(r, desc=f"{r['desc']} (structure claim {cname} fails on the symbolic path)")
    try:
        out = runner.explore(f"latlon-structure n={npts} subdivisions<={maxsub}", runner.lra_engine(10000), scenario, claims, confirm=confirm,
                             witness=lambda eng, v: ['latlon_inserted'] if len(v['out']) > len(v['pts']) else ['latlon_nothing_inserted'])
    finally:
        for k, f in saved.items():
            setattr(dl, k, f)
    return out


def run_instance(inst):
    if inst[0] == 'latlon_struct':
        return run_latlon_struct(inst)
    from leuvenmapmatching.util import dist_euclidean as de
    kind, npts = inst[:2]
    maxsub = inst[3] if len(inst) > 3 else MAXSUB
    shims.install(max_ceil=maxsub)
    name = f"euclidean n={npts} subdivisions<={maxsub}"

    def scenario():
        eng = E.get_engine()
        pts = [(eng.fresh(f"y{i}"), eng.fresh(f"x{i}")) for i in range(npts)]
        dd = eng.fresh("dd")
        eng.assume(dd.t > 0)
        out = de.interpolate_path(pts, dd)
        return dict(pts=pts, dd=dd, out=out)

    def claims(eng, v):
        pts, dd, out = v['pts'], v['dd'], v['out']
        cl = [('first_point_kept', z3.BoolVal(out[0] is pts[0])), ('last_point_kept', z3.BoolVal(out[-1] is pts[-1]))]
        # originals in order, by object identity
        idx, pos = [], 0
        for p in pts:
            while pos < len(out) and out[pos] is not p:
                pos += 1
            idx.append(pos)
            pos += 1
        ok = all(i < len(out) for i in idx)
        cl.append(('originals_kept_in_order', z3.BoolVal(ok)))
        if not ok:
            return cl
        dds = E.lift(dd)
        for s in range(len(pts) - 1):
            a, b = Lp(pts[s]), Lp(pts[s + 1])
            ins = out[idx[s] + 1: idx[s + 1]]
            dt = len(ins)
            for k, p in enumerate(ins, start=1):
                q = Lp(p)
                cl.append((f'inserted_{s}_{k}_on_connection_in_order',
                           z3.And(q[0] == a[0] + z3.Q(k, dt) * (b[0] - a[0]), q[1] == a[1] + z3.Q(k, dt) * (b[1] - a[1]))))
        for i in range(len(out) - 1):
            cl.append((f'gap_{i}_not_larger_than_spacing', d2(Lp(out[i]), Lp(out[i + 1])) <= dds * dds + SLACK))
        return cl

    def confirm(eng, model, v, cname):
        cp = [tuple(E.model_value(model, c.t) for c in p) for p in v['pts']]
        cdd = E.model_value(model, v['dd'].t)
        with shims.concrete():
            try:
                out = de.interpolate_path(cp, cdd)
            except Exception as e:
                return dict(desc=f"interpolate_path({cp},{cdd}) raised {e!r}", path=cp, dd=cdd)
        bad = concrete_check(cp, cdd, out)
        if bad:
            return dict(desc=f"interpolate_path({cp}, {cdd}) = {out}: {bad}", path=cp, dd=cdd)
        return None

    def witness(eng, v):
        n = len(v['out']) - len(v['pts'])
        return [f'inserted_{min(n, 3)}_or_more' if n else 'nothing_inserted']
    out = runner.explore(name, runner.nra_engine(10000), scenario, claims, confirm=confirm, witness=witness,
                         budget_s=inst[2] if len(inst) > 2 else None)
    shims.uninstall()
    return out


def main(tier):
    import_repo()
    from leuvenmapmatching.util import dist_euclidean as de
    rep = Report(PID, tier)
    from leuvenmapmatching.util import dist_latlon as dl
    rep.functions = src_hash(de.interpolate_path, de.distance, dl.interpolate_path)
    budget = 120 if tier == 'quick' else 600
    if tier == 'quick':
        insts = [('euclid', 1, budget, 5), ('euclid', 2, budget, 8), ('euclid', 3, budget, 4),
                 ('latlon_struct', 1, None, 5), ('latlon_struct', 2, None, 8), ('latlon_struct', 3, None, 4)]
    else:
        insts = [('euclid', 1, budget, 5), ('euclid', 2, budget, 24), ('euclid', 3, budget, 8), ('euclid', 4, budget, 4),
                 ('latlon_struct', 1, None, 5), ('latlon_struct', 2, None, 24), ('latlon_struct', 3, None, 8), ('latlon_struct', 4, None, 4)]
    maxsub_txt = ", ".join(f"{i[1]} points: <={i[3]}" for i in insts if i[0] == 'euclid')
    res = run_instances(run_instance, insts)
    rep.bounds = dict(trace="1..%d points, all coordinates symbolic" % (3 if tier == 'quick' else 4), spacing="dd>0 symbolic",
                      subdivisions=f"ceil(dist/dd) per leg bounded per instance ({maxsub_txt}); paths beyond are counted as unwind, outside the bound", metric="planar")
    rep.outside = ["latitude-longitude variant: only the loop structure is checked, over symbolic stand-ins of distance/bearing/destination (their correctness is C14)",
                   "rounding (the last inserted point equals p2 only in exact arithmetic)", f"more subdivisions per leg than the per-instance bound ({maxsub_txt})"]
    rep.assumptions = ["math.sqrt exact", "math.ceil forked over integer values"]
    tags = {}
    for r in res:
        rep.add_instance(r)
        for t, n in r.get('tags', {}).items():
            tags[t] = tags.get(t, 0) + n
        for v in r.get('violations', []):
            fn = write_replay(PID, dict(property=PID, instance=r['name'], path=v.get('path'), dd=v.get('dd'), kind=v.get('kind'), observed=v['desc']))
            rep.violations.append(dict(replay=fn, msg=v['desc']))
        for c in r.get('candidates', []):
            rep.unconfirmed.append(f"{r['name']}: {c}")
    rep.extra['reachability_tags'] = tags
    if not any(k.startswith('inserted_') for k in tags):
        rep.harness_errors.append("vacuity: no path inserted a point")
    return rep.finish("symbolic execution of the real dist_euclidean.interpolate_path with symbolic points and spacing (subdivision count forked), "
                      "claims refuted per path by z3 nlsat")


def replay_file(path):
    import json
    import_repo()
    from leuvenmapmatching.util import dist_euclidean as de
    d = json.load(open(path))
    if d.get('kind') == 'latlon_grid':
        from leuvenmapmatching.util import dist_latlon as dl
        cp = [tuple(p) for p in d['path']]
        try:
            out = dl.interpolate_path(cp, d['dd'])
        except Exception as e:
            print(f"raised {e!r}")
            return 1
        bad = concrete_latlon_check(cp, d['dd'], out)
        print(len(out), 'points ->', bad or 'consistent')
        return 1 if bad else 0
    if not d.get('path'):
        print(d['observed'])
        return 1
    cp = [tuple(p) for p in d['path']]
    out = de.interpolate_path(cp, d['dd'])
    bad = concrete_check(cp, d['dd'], out)
    print(out, '->', bad or 'consistent')
    return 1 if bad else 0

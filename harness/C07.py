"""C07 - width pruning is sound and widening is monotone (DESIGN.md section 5, C07).

K: the real LatticeColumn.prune on a column of symbolic scores against an independent specification.
R: the real match() with width W versus unpruned, and match(W1) -> increase_max_lattice_width(W2[,W3]) on one
   matcher, over abstract geometry; the assertion relates the runs inside one symbolic path.
"""
import itertools

import z3

from symx import engine as E
from symx import shims, runner
from symx.absmap import make_absmap_class, make_tablemap_class, table_from_model, library, NAMED
from symx.common import Report, run_instances, import_repo, src_hash, write_replay
from symx.matchlib import Cfg, make_matcher, obs_path, TOL, threshold_values, concrete_thresholds

PID = 'C07'


# ================================================================================================ K: prune
PATTERNS = {4: [((False,) * 4, (1, 1, 1, 1)), ((False,) * 4, (0, 1, 2, 1)), ((False, True, False, False), (2, 0, 1, 0))],
            5: [((False,) * 5, (1, 1, 1, 1, 1)), ((False,) * 5, (0, 1, 2, 1, 0)), ((False, True, False, False, False), (2, 0, 1, 0, 2))]}


def k_instances(tier):
    """n<=3: stop flags, delayed values and expand_upto all engine-chosen; n>=4: concrete stop/delayed patterns,
    scores (hence every weak ordering) symbolic."""
    out = []
    for n in (2, 3):
        for W in range(1, n + 1):
            for thr in (False, True):
                out.append(('prune', n, W, thr, None))
    out.append(('prune', 3, None, False, None))
    for n in ((4,) if tier == 'quick' else (4, 5)):
        for W in range(1, n):
            for thr in (False, True):
                for pi, pat in enumerate(PATTERNS[n]):
                    if tier == 'quick' and (pi == 2 or (thr and W > 2)):
                        continue
                    out.append(('prune', n, W, thr, pat))
    return out


def build_column(eng, n, pattern=None):
    from leuvenmapmatching.matcher.base import LatticeColumn, BaseMatching
    from leuvenmapmatching.util.segment import Segment
    col = LatticeColumn(0)
    ms = []
    for i in range(n):
        lp = eng.fresh(f"lp{i}")
        if pattern is None:
            stop = bool(eng.fresh_bool(f"stop{i}"))
            delayed = eng.choose(3, tag=f"delayed{i}")
        else:
            stop, delayed = pattern[0][i], pattern[1][i]
        m = BaseMatching(None, Segment(f"N{i}", (0.0, float(i)), f"M{i}", (1.0, float(i))), Segment("O0", (0.0, 0.0)),
                         logprob=lp, logprobe=lp, logprobne=0, obs=0, obs_ne=0, stop=stop, delayed=delayed)
        col.upsert(m)
        ms.append(m)
    return col, ms


def run_prune(inst):
    _, n, W, with_thr, pattern = inst[:5]
    name = f"prune n={n} W={W} thr={int(with_thr)} pattern={pattern}"

    def scenario():
        eng = E.get_engine()
        col, ms = build_column(eng, n, pattern)
        pre = [(m.logprob, m.stop, m.delayed) for m in ms]
        eu = eng.choose(2, tag="expand_upto") if pattern is None else 1
        thr = eng.fresh("prune_thr") if with_thr else None
        ret = col.prune(0, W, eu, thr)
        return dict(ms=ms, pre=pre, eu=eu, thr=thr, ret=ret, col=col)

    def claims(eng, v):
        ms, pre, eu, thr, ret = v['ms'], v['pre'], v['eu'], v['thr'], v['ret']
        cl = []
        lps = [E.lift(p[0]) for p in pre]
        live = [i for i in range(n) if not pre[i][1]]
        unchanged_fields = all(ms[i].logprob is pre[i][0] and ms[i].stop == pre[i][1] for i in range(n)) and \
            all(ms[i].delayed == pre[i][2] for i in range(n) if pre[i][1]) and \
            len(v['col'].o) == 1 and len(v['col'].o[0]) == n
        cl.append(('only_delayed_of_live_entries_changes', z3.BoolVal(bool(unchanged_fields))))
        if W is None or len(live) <= W:
            same = all(ms[i].delayed == pre[i][2] for i in range(n))
            rs = (ret is thr) or (thr is not None and ret is not None and not isinstance(ret, (int, float)) and False)
            cl.append(('no_pruning_when_it_fits', z3.BoolVal(bool(same and ret is thr))))
            return cl
        inK = {}
        for i in live:
            greater = z3.Sum([z3.If(lps[j] > lps[i], 1, 0) for j in live if j != i]) if len(live) > 1 else z3.IntVal(0)
            k0 = greater < W
            inK[i] = z3.And(k0, lps[i] >= thr.t) if thr is not None else k0
        for i in live:
            d = pre[i][2]
            exp_in = min(d, eu)
            exp_out = eu + 1 if d <= eu else d
            cl.append((f'delayed_of_entry_{i}', z3.If(inK[i], ms[i].delayed == exp_in, ms[i].delayed == exp_out)))
        # property-level statements
        expanded = [i for i in live if ms[i].delayed <= eu]
        postponed = [i for i in live if ms[i].delayed > eu]
        cl.append(('no_postponed_more_probable_than_expanded',
                   z3.And(*[lps[a] >= lps[b] for a in expanded for b in postponed]) if expanded and postponed else z3.BoolVal(True)))
        if thr is None:
            cl.append(('at_least_W_kept', z3.BoolVal(len(expanded) >= W)))
            # not more than W plus ties: every expanded entry has fewer than W strictly better live entries
            cl.append(('only_W_best_plus_ties',
                       z3.And(*[z3.Sum([z3.If(lps[j] > lps[i], 1, 0) for j in live if j != i]) < W for i in expanded])
                       if len(live) > 1 else z3.BoolVal(True)))
        anyK = z3.Or(*[inK[i] for i in live])
        if isinstance(ret, E.Sym):
            r = ret.t
            minK = z3.And(z3.Or(*[z3.And(inK[i], r == lps[i]) for i in live]), *[z3.Implies(inK[i], r <= lps[i]) for i in live])
            if thr is not None:
                cl.append(('return_value', z3.If(anyK, minK, r == thr.t)))
            else:
                cl.append(('return_value', z3.And(anyK, minK)))
        else:
            cl.append(('return_value', z3.And(z3.Not(anyK), z3.BoolVal(ret is None and thr is None))))
        return cl

    def confirm(eng, model, v, cname):
        # replay on plain floats with the unmodified class
        from leuvenmapmatching.matcher.base import LatticeColumn, BaseMatching
        from leuvenmapmatching.util.segment import Segment
        pre, eu, thr = v['pre'], v['eu'], v['thr']
        vals = [E.model_value(model, E.lift(p[0])) for p in pre]
        tv = E.model_value(model, thr.t) if thr is not None else None
        col = LatticeColumn(0)
        ms = []
        for i in range(n):
            m = BaseMatching(None, Segment(f"N{i}", (0.0, float(i)), f"M{i}", (1.0, float(i))), Segment("O0", (0.0, 0.0)),
                             logprob=vals[i], obs=0, obs_ne=0, stop=pre[i][1], delayed=pre[i][2])
            col.upsert(m)
            ms.append(m)
        ret = col.prune(0, W, eu, tv)
        bad = spec_violation(vals, [p[1] for p in pre], [p[2] for p in pre], W, eu, tv, [m.delayed for m in ms], ret)
        if bad:
            return dict(desc=bad, scores=vals, stop=[p[1] for p in pre], delayed=[p[2] for p in pre], W=W, expand_upto=eu,
                        prune_thr=tv, kind='prune')
        return None

    def witness(eng, v):
        live = [i for i in range(n) if not v['pre'][i][1]]
        tags = ['pruned' if (W is not None and len(live) > W) else 'fits']
        if any(v['ms'][i].delayed > v['eu'] and v['pre'][i][2] <= v['eu'] for i in live):
            tags.append('postponed_something')
        if any(v['ms'][i].delayed < v['pre'][i][2] for i in live):
            tags.append('reactivated_something')
        return tags

    return runner.explore(name, runner.lra_engine(10000), scenario, claims, confirm=confirm, witness=witness,
                          budget_s=inst[5] if len(inst) > 5 else None,
                          sample_fmt=lambda v: dict(delayed_after=[m.delayed for m in v['ms']], eu=v['eu']))


def spec_violation(vals, stop, delayed, W, eu, thr, delayed_after, ret):
    """Concrete specification of prune (written from the property statement)."""
    n = len(vals)
    live = [i for i in range(n) if not stop[i]]
    if W is None or len(live) <= W:
        if delayed_after != delayed or ret != thr:
            return f"column fits in W but prune changed something: {delayed}->{delayed_after}, ret={ret}"
        return None
    K = [i for i in live if sum(1 for j in live if vals[j] > vals[i]) < W and (thr is None or vals[i] >= thr)]
    for i in range(n):
        if i not in live:
            exp = delayed[i]
        elif i in K:
            exp = min(delayed[i], eu)
        else:
            exp = eu + 1 if delayed[i] <= eu else delayed[i]
        if delayed_after[i] != exp:
            return (f"entry {i} (score {vals[i]}, delayed {delayed[i]}) has delayed={delayed_after[i]} after prune, expected {exp} "
                    f"(W={W}, expand_upto={eu}, thr={thr}, scores={vals}, stop={stop})")
    exp_ret = min(vals[i] for i in K) if K else thr
    if ret != exp_ret:
        return f"prune returned {ret}, expected {exp_ret}"
    return None


# ================================================================================================ R: match with width
def r_instances(tier):
    out = []
    if tier == 'quick':
        gs = [('line2', NAMED['line2']), ('oneway3', NAMED['oneway3']), ('A>BC;B>;C>', {"A": ["B", "C"], "B": [], "C": []})]
        for name, g in gs:
            ne_edges = len([(u, v) for u in g for v in g[u]])
            for fam in ('simple', 'dist'):
                for ne in (False, True):
                    out.append(('width', name, g, dict(fam=fam, T=2, ne=ne, sym_maxdist=False, sym_init=False, sym_minprob=False), (1, 2)))
        out.append(('width', 'line2', NAMED['line2'], dict(fam='simple', T=2, ne=False, sym_maxdist=True, sym_init=False, sym_minprob=False), (1, 2)))
        out.append(('width', 'line2', NAMED['line2'], dict(fam='simple', T=3, ne=False, sym_maxdist=False, sym_init=False, sym_minprob=False), (1, 2)))
        out.append(('width', 'oneway3', NAMED['oneway3'], dict(fam='simple', T=2, ne=False, sym_maxdist=True, sym_init=False, sym_minprob=False), (1, 2)))
        SIDE = {"A": ["B"], "S": ["B"], "B": ["C"], "C": ["D"], "D": []}
        for fam in ('simple', 'dist'):
            out.append(('width', 'side', SIDE, dict(fam=fam, T=3, ne=False, sym_maxdist=False, sym_init=False, sym_minprob=False), (1, 4)))
            out.append(('width', 'oneway3', NAMED['oneway3'], dict(fam=fam, T=3, ne=False, sym_maxdist=False, sym_init=False, sym_minprob=False), (1, 2)))
        out.append(('width', 'A>BC;B>A;C>A', {"A": ["B", "C"], "B": ["A"], "C": ["A"]}, dict(fam='simple_n', T=2, ne=True, sym_maxdist=False, sym_init=False, sym_minprob=False), (1, 2)))
        out.append(('width', 'tri', NAMED['tri'], dict(fam='simple', T=2, ne=False, sym_maxdist=False, sym_init=False, sym_minprob=False), (1, 2, 3)))
        # a first column that fits the old width (symbolic initial radius) followed by a column that overflows the old AND the new width
        FORK3 = {"A": ["B"], "B": ["C", "D", "E"], "C": [], "D": [], "E": []}
        for fam in ('simple', 'dist'):
            out.append(('width', 'fork3', FORK3, dict(fam=fam, T=2, ne=False, sym_maxdist=False, sym_init=True, sym_minprob=False), (1, 2)))
            out.append(('width', 'fork3/false-first', FORK3, dict(fam=fam, T=2, ne=False, sym_maxdist=False, sym_init=True, sym_minprob=False), (1, 2)))
    else:
        for name, g in library(3, named=('fork',)):
            nedge = len([(u, v) for u in g for v in g[u]])
            if nedge > 4:
                continue
            for fam in ('simple', 'dist', 'simple_n'):
                for ne in (False, True):
                    for T in (2, 3):
                        if T == 3 and nedge > 2:
                            continue
                        for md in (False, True):
                            seqs = [(1, 2), (1, 3), (2, 3), (1, 2, 3)] if nedge >= 3 else [(1, 2)]
                            for ws in seqs:
                                out.append(('width', name, g, dict(fam=fam, T=T, ne=ne, sym_maxdist=md, sym_init=False, sym_minprob=False), ws))
    return out


def width_ops(T, widths):
    return [('match', T), ('new', dict(width=widths[0])), ('match', T)] + [('widen', w) for w in widths[1:]]


def width_claims(ctx):
    """relate the unpruned reference run (first matcher) with the pruned / widened runs (second matcher)."""
    cfg = ctx['cfg']
    T = cfg.T
    rs = ctx['results']
    ref = rs[0]
    nstates = len([(u, v) for u in ctx['g'] for v in ctx['g'][u] if u != v]) + (len(ctx['g']) if not cfg.only_edges else 0)
    out = []
    if any(r['states'] is None for r in rs):
        return [('all_runs_return_lists', False)]

    def ge(a, b):
        return E.lift(a) >= E.lift(b) - TOL
    prev = None
    for r in rs[1:]:
        W = r['op'][1] if r['op'][0] == 'widen' else [o[1]['width'] for o in ctx['ops'] if o[0] == 'new'][0]
        nm = f"{'pruned' if r['op'][0] == 'match' else 'widened'}_W{W}"
        longer = bool(r['states']) and (not ref['states'] or r['idx'] > ref['idx'])
        out.append((f"{nm}_not_longer_than_unpruned", not longer))
        if r['states'] and ref['states'] and r['idx'] == T - 1 and ref['idx'] == T - 1:
            out.append((f"{nm}_not_more_probable_than_unpruned", ge(ref['score'], r['score'])))
        if W >= nstates:
            same = bool(r['states']) == bool(ref['states']) and r['idx'] == ref['idx']
            out.append((f"{nm}_coincides_when_W_covers_all", same))
            if same and r['states']:
                out.append((f"{nm}_same_score_when_W_covers_all", ge(r['score'], ref['score'])))
        if prev is not None:
            shorter = bool(prev['states']) and (not r['states'] or r['idx'] < prev['idx'])
            out.append((f"{nm}_widening_never_shortens", not shorter))
            if prev['states'] and r['states'] and prev['idx'] == T - 1 and r['idx'] == T - 1:
                out.append((f"{nm}_widening_never_lowers_probability", ge(r['score'], prev['score'])))
        prev = r
    # state of the lattice after the last operation: per observation, the expanded candidates (postponement counter not above the
    # current expansion round) are among the W most probable live ones (plus exact ties), and no postponed one is more probable
    last = rs[-1]
    mt = last['mt']
    Wl = last['op'][1] if last['op'][0] == 'widen' else [o[1]['width'] for o in ctx['ops'] if o[0] == 'new'][0]
    for t in sorted(mt.lattice):
        live = [m for m in mt.lattice[t].values(0) if not m.stop]
        exp = [m for m in live if m.delayed <= mt.expand_now]
        post = [m for m in live if m.delayed > mt.expand_now]
        for e in exp:
            better = z3.Sum(*[z3.If(E.lift(j.logprob) > E.lift(e.logprob), 1, 0) for j in live]) if len(live) > 1 else z3.IntVal(0)
            out.append((f"obs{t}_expanded_{e.shortkey}_is_among_the_{Wl}_most_probable", better < Wl))
            for p_ in post:
                out.append((f"obs{t}_postponed_{p_.shortkey}_not_more_probable_than_expanded_{e.shortkey}", E.lift(p_.logprob) <= E.lift(e.logprob)))
    return out


def width_witness(ctx):
    rs = ctx['results']
    tags = []
    if len(rs) > 1 and rs[1]['states'] and rs[0]['states'] and rs[1]['idx'] < rs[0]['idx']:
        tags.append('pruned_run_shorter')
    if any(r['op'][0] == 'widen' and r['states'] and rs[1]['states'] and r['idx'] > rs[1]['idx'] for r in rs):
        tags.append('widening_extended_match')
    if rs[0]['states'] and rs[0]['idx'] == ctx['cfg'].T - 1:
        tags.append('complete')
    return tags


def run_width(inst):
    from symx import gabs
    _, gname, g, kw, widths = inst[:5]
    opts = {}
    if gname.endswith('/false-first'):
        opts['false_first'] = True
    ginst = (f"width {gname} widths={widths}", g, kw, width_ops(kw['T'], widths), opts) + tuple(inst[5:6])
    return gabs.run(ginst, width_claims, width_witness)


def known_width_finding(v, findings):
    """F-C07-node-states-nonemitting-unpruned-suboptimal: node-and-edge states with non-emitting states, and the violated claim
    says that a pruned / widened run is more probable than (or differs in score from) the unpruned run."""
    cfg = v.get('cfg') or {}
    if v.get('kind') != 'gabs' or cfg.get('fam') != 'simple_n' or not cfg.get('ne'):
        return None
    if not any(x in v.get('claim', '') for x in ('not_more_probable_than_unpruned', 'same_score_when_W_covers_all')):
        return None
    for f in findings:
        if f.get('predicate') == 'node_states_nonemitting_pruned_beats_unpruned':
            return f"{f['id']}: {f['what'][:200]}"
    return None


def run_instance(inst):
    return run_prune(inst) if inst[0] == 'prune' else run_width(inst)


def main(tier):
    import_repo()
    from leuvenmapmatching.matcher import base as mb
    rep = Report(PID, tier)
    shims.selftest_halfnorm()
    rep.functions = src_hash(mb.LatticeColumn.prune, mb.BaseMatcher.match, mb.BaseMatcher._create_start_nodes,
                             mb.BaseMatcher._match_states, mb.BaseMatcher._match_non_emitting_states,
                             mb.BaseMatcher.increase_max_lattice_width, mb.BaseMatching._update_inner)
    from symx.common import fit_budget
    budget = fit_budget(len(k_instances(tier)) * 4 + len(r_instances(tier)), tier, 60, 60)
    insts = [i + (4 * budget,) for i in k_instances(tier)] + [i + (budget,) for i in r_instances(tier)]
    res = run_instances(run_instance, insts)
    rep.bounds = dict(prune="column of n<=%d entries, symbolic scores, symbolic stop flags, delayed in {0,1,2}, expand_upto in {0,1}, every W in 1..n, prune_thr None or symbolic" % (4 if tier == 'quick' else 5),
                      match="abstract geometry; graphs: " + ("line2, oneway3, 2-edge fork, tri" if tier == 'quick' else "every digraph on <=3 nodes with <=4 edges, fork") +
                            "; T<=3; width sequences of length <=3; both matcher families, non-emitting on/off",
                      per_instance_budget_s=budget)
    rep.outside = ["rounding", "columns wider than the bound", "graphs/traces beyond the bound"]
    rep.assumptions = ["AbsMap contract", "halfnorm formula shim"]
    from symx.common import load_findings
    findings, known = load_findings(PID), set()
    tags = {}
    for r in sorted(res, key=lambda r: r['name']):
        rep.add_instance(r)
        for t, n in r.get('tags', {}).items():
            tags[t] = tags.get(t, 0) + n
        for v in r.get('violations', []):
            kf = known_width_finding(v, findings)
            if kf:
                if kf not in known:
                    known.add(kf)
                    rep.known_hits.append(f"{kf} (e.g. {v['desc'][:260]})")
                continue
            fn = write_replay(PID, dict(property=PID, instance=r['name'], **{k: v[k] for k in v if k != 'desc'}, observed=v['desc']))
            rep.violations.append(dict(replay=fn, msg=f"{r['name']} claim={v['claim']}: {v['desc']}"))
        for c in r.get('candidates', []):
            rep.unconfirmed.append(f"{r['name']}: {c}")
    rep.extra['reachability_tags'] = tags
    for need in ('pruned', 'postponed_something', 'reactivated_something', 'pruned_run_shorter'):
        if not tags.get(need):
            rep.harness_errors.append(f"vacuity: no path reached '{need}'")
    return rep.finish("symbolic execution of the real LatticeColumn.prune against an independent specification, and relational "
                      "symbolic execution of match() with/without width and of widening sequences over abstract geometry (z3 LRA)")


def replay_file(path):
    import json
    import_repo()
    with open(path) as f:
        d = json.load(f)
    if d.get('kind') == 'prune':
        from leuvenmapmatching.matcher.base import LatticeColumn, BaseMatching
        from leuvenmapmatching.util.segment import Segment
        col = LatticeColumn(0)
        ms = []
        for i, s in enumerate(d['scores']):
            m = BaseMatching(None, Segment(f"N{i}", (0.0, float(i)), f"M{i}", (1.0, float(i))), Segment("O0", (0.0, 0.0)),
                             logprob=s, obs=0, obs_ne=0, stop=d['stop'][i], delayed=d['delayed'][i])
            col.upsert(m)
            ms.append(m)
        ret = col.prune(0, d['W'], d['expand_upto'], d['prune_thr'])
        bad = spec_violation(d['scores'], d['stop'], d['delayed'], d['W'], d['expand_upto'], d['prune_thr'], [m.delayed for m in ms], ret)
        print(bad or "consistent")
        return 1 if bad else 0
    if d.get('kind') == 'gabs':
        from symx import gabs
        return gabs.replay(path, width_claims)
    print(d['observed'])
    return 1

"""C05 - cut-offs are honoured and matched positions are true nearest points (DESIGN.md section 5, C05).

G-real: real InMemMap + real planar kernels executed by SYMX, observations symbolic, thresholds symbolic: for every state on
the best path dist_obs <= max_dist (< max_dist_init for the first), normalised probability >= minimum, the reported position is
p1 + ti (p2 - p1), the reported distance is the distance to it, and no point of the edge is nearer (one existential witness).
G-abs: the cut-off part over abstract geometry with non-emitting states and histories.
"""
import math

import z3

from symx import engine as E
from symx import shims, runner, gabs, greal
from symx import latticelib as LL
from symx.absmap import NAMED
from symx.common import Report, run_instances, import_repo, src_hash, write_replay
from symx.matchlib import Cfg, make_matcher, concrete_thresholds, threshold_values

PID = 'C05'
REL = 1 + z3.Q(1, 10 ** 4)
SLACK2 = z3.Q(1, 10 ** 6)
DEG2 = z3.Q(3, 10 ** 16)
EPS8 = z3.Q(1, 10 ** 8)


def d2(p, q):
    return (p[0] - q[0]) * (p[0] - q[0]) + (p[1] - q[1]) * (p[1] - q[1])


def Lp(p):
    return (E.lift(p[0]), E.lift(p[1]))


def at(a, b, u):
    return (a[0] + u * (b[0] - a[0]), a[1] + u * (b[1] - a[1]))


# ------------------------------------------------------------------------------------------------ G-real
def real_instances(tier):
    out = []
    if tier == 'quick':
        for fam in ('simple', 'dist'):
            out.append(('line2', fam, 2, False, '2d', dict(sym_maxdist=True, sym_init=False, sym_minprob=False)))
            out.append(('corner3', fam, 2, False, '1d', dict(sym_maxdist=True, sym_init=True, sym_minprob=False)))
            out.append(('oneway3', fam, 2, True, '1d', dict(sym_maxdist=False, sym_init=False, sym_minprob=False)))
            out.append(('oneway4', fam, 2, True, '1d', dict(sym_maxdist=False, sym_init=False, sym_minprob=False)))
        out.append(('line2', 'simple_n', 2, False, '1d', dict(sym_maxdist=True, sym_init=False, sym_minprob=False)))
        out.append(('line2', 'simple', 2, False, '1d', dict(sym_maxdist=False, sym_init=False, sym_minprob=True)))
        out.append(('zerolen3', 'simple', 2, False, '1d', dict(sym_maxdist=False, sym_init=False, sym_minprob=False)))
        out.append(('tiny2', 'simple', 2, False, '1d', dict(sym_maxdist=False, sym_init=False, sym_minprob=False)))
        out.append(('dash4', 'simple', 2, False, '1d', dict(sym_maxdist=False, sym_init=False, sym_minprob=False)))
        out.append(('dash4', 'dist', 2, False, '1d', dict(sym_maxdist=False, sym_init=False, sym_minprob=False)))
        out.append(('tiny2', 'dist', 1, False, '2d', dict(sym_maxdist=False, sym_init=False, sym_minprob=False)))
    else:
        for lay in greal.LAYOUTS:
            for fam in ('simple', 'dist', 'simple_n'):
                for ne in (False, True):
                    for mode in ('1d', '2d'):
                        if mode == '2d' and not greal.LAYOUTS[lay][1]:
                            continue
                        for sym in (dict(sym_maxdist=True, sym_init=True, sym_minprob=False), dict(sym_maxdist=False, sym_init=False, sym_minprob=True),
                                    dict(sym_maxdist=False, sym_init=False, sym_minprob=False)):
                            out.append((lay, fam, 2, ne, mode, sym))
    return out


def run_real(inst):
    _, lay, fam, T, ne, mode, sym = inst[:7]
    budget = inst[7] if len(inst) > 7 else None
    cfg = Cfg(fam=fam, T=T, ne=ne, **sym)
    shims.install()
    name = f"greal {lay} {cfg.describe()} obs={mode}"

    def scenario():
        eng = E.get_engine()
        mp = greal.new_map(lay)
        mt = make_matcher(eng, mp, cfg)
        path = greal.make_path(eng, T, mode, scale=(1e-4 if lay.startswith('tiny') else 1.0))
        states, idx = mt.match(path)
        return dict(mp=mp, mt=mt, path=path, states=states, idx=idx)

    def claims(eng, v):
        mt, path = v['mt'], v['path']
        cl = []
        if not v['states']:
            return [('empty_result', z3.BoolVal(True))]
        for nm, f in LL.c05_cutoff_claims(mt, cfg):
            cl.append((nm, f))
        u, w = z3.Reals('u!w v!w')
        for i, m in enumerate(mt.lattice_best):
            tag = f"[{i}:{m.label}]"
            D2 = LL.radicand(m.dist_obs)
            em = m.edge_m
            if m.obs_ne == 0:
                o = Lp(path[m.obs])
                if em.p2 is None:
                    cl.append((f'node_distance{tag}', D2 == d2(o, Lp(em.p1))))
                    continue
                a, b = Lp(em.p1), Lp(em.p2)
                pi, ti = Lp(em.pi), E.lift(em.ti)
                degenerate = z3.And(a[0] - b[0] <= EPS8, b[0] - a[0] <= EPS8, a[1] - b[1] <= EPS8, b[1] - a[1] <= EPS8)
                cl.append((f'position_is_p1_plus_ti_times_edge{tag}', z3.And(ti >= 0, ti <= 1, pi[0] == a[0] + ti * (b[0] - a[0]),
                                                                           pi[1] == a[1] + ti * (b[1] - a[1]))))
                cl.append((f'reported_distance_is_distance_to_position{tag}', D2 == d2(o, pi)))
                cl.append((f'position_is_nearest_point_of_edge{tag}',
                           z3.Implies(z3.And(u >= 0, u <= 1), z3.If(degenerate, d2(pi, at(a, b, u)) <= DEG2, d2(o, at(a, b, u)) >= D2))))
            else:
                o1, o2 = Lp(path[m.obs]), Lp(path[m.obs + 1])
                if em.p2 is None:
                    cl.append((f'nonemitting_node_distance_minimal{tag}', z3.Implies(z3.And(u >= 0, u <= 1), d2(Lp(em.p1), at(o1, o2, u)) * REL + SLACK2 >= D2)))
                    continue
                a, b = Lp(em.p1), Lp(em.p2)
                pi, ti = Lp(em.pi), E.lift(em.ti)
                cl.append((f'nonemitting_position_on_edge{tag}', z3.And(ti >= 0, ti <= 1, pi[0] == a[0] + ti * (b[0] - a[0]), pi[1] == a[1] + ti * (b[1] - a[1]))))
                cl.append((f'nonemitting_distance_minimal{tag}',
                           z3.Implies(z3.And(u >= 0, u <= 1, w >= 0, w <= 1), d2(at(a, b, u), at(o1, o2, w)) * REL + SLACK2 >= D2)))
        return cl

    def concrete_check(mt, cpath, thr):
        """float oracle over lattice_best; returns None or description."""
        md = mt.max_dist
        mdi = mt.max_dist_init
        ml = mt.min_logprob_norm
        for i, m in enumerate(mt.lattice_best):
            em = m.edge_m
            d = float(m.dist_obs)
            if i == 0 and not d < mdi * (1 + 1e-9) + 1e-12:
                return f"first state {m.label} at distance {d} >= max_dist_init {mdi}"
            if d > md * (1 + 1e-9) + 1e-12:
                return f"state {m.label} at distance {d} > max_dist {md}"
            if m.logprob / m.length < ml - 1e-9:
                return f"state {m.label} normalised logprob {m.logprob / m.length} < {ml}"
            if m.obs_ne == 0:
                o = cpath[m.obs]
                true = greal.c_pt_seg(o, em.p1, em.p2) if em.p2 is not None else math.hypot(o[0] - em.p1[0], o[1] - em.p1[1])
                if abs(d - true) > 3e-8 + 1e-9 * true:
                    return f"state {m.label}: reported distance {d}, true nearest distance {true} (obs {o})"
                if em.p2 is not None:
                    px = (em.p1[0] + em.ti * (em.p2[0] - em.p1[0]), em.p1[1] + em.ti * (em.p2[1] - em.p1[1]))
                    if not (0 <= em.ti <= 1) or math.hypot(px[0] - em.pi[0], px[1] - em.pi[1]) > 1e-9 or abs(math.hypot(o[0] - em.pi[0], o[1] - em.pi[1]) - d) > 1e-9:
                        return f"state {m.label}: pi={em.pi}, ti={em.ti} inconsistent with edge {em.p1}->{em.p2} / distance {d}"
            else:
                o1, o2 = cpath[m.obs], cpath[m.obs + 1]
                true = greal.c_seg_seg(em.p1, em.p2, o1, o2) if em.p2 is not None else greal.c_pt_seg(em.p1, o1, o2)
                if d * d > true * true * (1 + 0.9e-4) + 0.9e-6:
                    return f"non-emitting state {m.label}: reported distance {d}, true minimum {true}"
        return None

    def confirm(eng, model, v, cname):
        cpath = greal.concrete_path(model, v['path'])
        thr = threshold_values(model, cfg)
        with shims.concrete():
            mp = greal.new_map(lay)
            mt = make_matcher(None, mp, cfg)
            concrete_thresholds(mt, cfg, thr)
            try:
                states, idx = mt.match(cpath)
            except Exception as e:
                return dict(desc=f"match({cpath}) raised {type(e).__name__}: {e}", layout=lay, cfg=dict(fam=fam, T=T, ne=ne, **sym), path=cpath, thresholds=thr, kind='greal')
            bad = concrete_check(mt, cpath, thr) if states else None
        if bad:
            return dict(desc=bad, layout=lay, cfg=dict(fam=fam, T=T, ne=ne, **sym), path=cpath, thresholds=thr, kind='greal')
        return None

    def witness(eng, v):
        t = []
        lb = v['mt'].lattice_best or []
        if any(m.obs_ne > 0 for m in lb):
            t.append('nonemitting_on_best_path')
        if lb:
            t.append('nonempty')
        if v['states'] and v['idx'] < T - 1:
            t.append('early_stop')
        return t
    out = runner.explore(name, runner.nra_engine(10000), scenario, claims, confirm=confirm, witness=witness, budget_s=budget,
                         sample_fmt=lambda v: dict(states=repr(v['states']), idx=v['idx']))
    shims.uninstall()
    out['concrete_check'] = None
    return out


# ------------------------------------------------------------------------------------------------ G-abs (cut-offs)
def abs_claims(ctx):
    cl = []
    for i, r in enumerate(ctx['results']):
        if r['states']:
            class V:
                lattice_best = r['lattice_best']
                max_dist, max_dist_init, min_logprob_norm = r['mt'].max_dist, r['mt'].max_dist_init, r['mt'].min_logprob_norm
            cl += [(f"op{i}:{nm}", f) for nm, f in LL.c05_cutoff_claims(V, ctx['cfg'])]
            cl += [(f"op{i}:{nm}", f) for nm, f in position_claims(r['mp'], r['mt'], ctx['cfg'], r['lattice_best'])]
    return cl


def position_claims(mp, mt, cfg, lb):
    """Abstract-geometry form of 'the reported position is the nearest point of THAT edge': the state's segment runs between the
    map's two node locations, and the reported distance / matched point / relative position are the ones the map's kernel returns
    for (observation, that segment) - also for states created by continue_with_distance jumps."""
    from symx.absmap import pname
    pm = LL.PathModel(mp, mt, cfg)
    cl = []
    for i, m in enumerate(lb):
        st = LL.state_of(m)
        canon = getattr(mp, 'canon', None) or {}
        if isinstance(st, tuple):
            ends = (pname(m.edge_m.p1), pname(m.edge_m.p2))
            want = (f"n{canon.get(st[0], st[0])}", f"n{canon.get(st[1], st[1])}")
            cl.append((f'segment_of_[{i}:{m.label}]_runs_between_its_nodes', z3.BoolVal(ends == want)))
        q, pt_m, pt_o, ti = pm.geo(st, m.obs, m.obs_ne)
        cl.append((f'reported_distance_of_[{i}:{m.label}]_is_the_distance_to_that_state', LL.radicand(m.dist_obs) == q))
        if isinstance(st, tuple) and m.obs_ne == 0:
            cl.append((f'matched_point_of_[{i}:{m.label}]_is_the_projection_on_that_edge', z3.BoolVal(pname(m.edge_m.pi) == pt_m)))
            cl.append((f'relative_position_of_[{i}:{m.label}]_belongs_to_that_projection', E.lift(m.edge_m.ti) == ti))
    return cl


def abs_witness(ctx):
    lb = ctx['mt'].lattice_best or []
    jumped = any(a.shortkey != b.shortkey and isinstance(a.shortkey, tuple) and isinstance(b.shortkey, tuple) and a.shortkey[1] != b.shortkey[0] for a, b in zip(lb, lb[1:]))
    return (['abs_jump_on_best_path'] if jumped else []) + (['abs_nonempty'] if lb else []) + (['abs_nonemitting_on_best_path'] if any(m.obs_ne for m in lb) else [])


ALLSYM = dict(sym_maxdist=True, sym_init=True, sym_minprob=True)


def abs_instances(tier):
    out = []
    for fam in ('simple', 'dist'):
        out.append(('oneway2', NAMED['oneway2'], dict(fam=fam, T=2, ne=False, **ALLSYM), [('match', 2)], {}))
        out.append(('oneway4', NAMED['oneway4'], dict(fam=fam, T=2, ne=True, sym_maxdist=True, sym_init=False, sym_minprob=False), [('match', 2)], {}))
        out.append(('oneway3', NAMED['oneway3'], dict(fam=fam, T=3, ne=False, width=1, sym_maxdist=True, sym_init=False, sym_minprob=True), [('match', 3), ('widen', 2)], {}))
    out.append(('line2', NAMED['line2'], dict(fam='simple_n', T=2, ne=True, **ALLSYM), [('match', 2)], {}))
    for fam in ('simple', 'dist'):
        # minimum normalised probability symbolic with non-emitting states on the path (their full log-probability over the path length counts)
        out.append(('oneway4', NAMED['oneway4'], dict(fam=fam, T=2, ne=True, sym_maxdist=False, sym_init=False, sym_minprob=True), [('match', 2)], {}))
        out.append(('oneway3', NAMED['oneway3'], dict(fam=fam, T=2, ne=True, noise_ne=0.5, sym_maxdist=False, sym_init=False, sym_minprob=True), [('match', 2)], {}))
    for fam in ('simple', 'dist'):
        # max_dist and max_dist_init both symbolic and unrelated (either may be the larger one), non-emitting states between the observations
        out.append(('oneway4', NAMED['oneway4'], dict(fam=fam, T=2, ne=True, sym_maxdist=True, sym_init=True, sym_minprob=False), [('match', 2)], {}))
    # jump over a gap: match stops early, continue_with_distance adds nearby edges, the extended match runs through the jumped state
    gap = {"A": ["B"], "B": [], "C": ["D"], "D": []}
    for fam in ('simple', 'dist'):
        out.append(('gap2', gap, dict(fam=fam, T=3, ne=False, sym_maxdist=True, sym_init=False, sym_minprob=False), [('match', 3), ('continue', 1, 1), ('extend', 3)], {}))
    return out


def run_instance(inst):
    if inst[0] == 'greal':
        return run_real(inst)
    if inst[0] == 'latlon_kernel':
        # the position / distance of an emitting state on a lat-lon map is what dist_latlon.distance_point_to_segment returns for
        # (observation, edge): the same one-call harness as C14 (exact angle algebra), on the street-scale families
        from harness import C14
        r = C14.run_instance(inst[1:])
        r['name'] = 'latlon position kernel: ' + r['name']
        return r
    # continue_with_distance after a COMPLETE match raises IndexError in best_last_matches: totality of that call is outside C05
    # (and outside C17, which is about match()); such paths are counted as exception_outside_claim, as in C09
    return gabs.run(inst, abs_claims, abs_witness, exc_is_violation=not any(o[0] == 'continue' for o in inst[3]))


def main(tier):
    import_repo()
    from leuvenmapmatching.matcher import base as mb
    from leuvenmapmatching.util import dist_euclidean as de, segment as sg, dist_latlon as dll
    rep = Report(PID, tier)
    shims.selftest_halfnorm()
    rep.functions = src_hash(mb.BaseMatcher.do_stop, mb.BaseMatching.first, mb.BaseMatching.next, sg.Segment, mb.BaseMatcher._create_start_nodes,
                             de.project, de.distance_point_to_segment, de.distance_segment_to_segment, de.distance, dll.distance_point_to_segment)
    from symx.common import fit_budget
    budget = fit_budget(len(real_instances(tier)), tier, 100, 100)
    kb = 60 if tier == 'quick' else 600
    rres = run_instances(run_instance, [('latlon_kernel', k, kb) for k in ('dps_short_equator', 'dps_short_meridian', 'dps_near_start', 'dps_near_end')]
                         + [('greal',) + i + (budget,) for i in real_instances(tier)])
    ares = gabs.run_all(rep, run_instance, abs_instances(tier), 60 if tier == 'quick' else 600, 16 * (40 if tier == 'quick' else 600))
    rep.bounds = dict(greal="layouts %s; T=2; observations symbolic (2-D on axis-parallel layouts or x symbolic on a fixed horizontal line); thresholds symbolic; three families; non-emitting on/off" % sorted(greal.LAYOUTS if tier != 'quick' else ['line2', 'corner3', 'oneway3', 'oneway4', 'zerolen3']),
                      gabs="cut-off claims over abstract geometry incl. widening history", budget_s=budget)
    rep.outside = ["rounding at the thresholds", "latitude-longitude metric beyond the point-to-segment kernel on street-scale equatorial / meridian segments (angle algebra, shared with C14); lat-lon matching runs with uninterpreted trigonometry are C17's", "layouts beyond the library"]
    rep.assumptions = ["math.sqrt exact; isclose as |a-b|<=atol", "non-emitting distances: slack 1e-4 relative + 1e-6 on squared distances (as C13)"]
    gabs.collect(rep, list(rres) + list(ares), PID, need_tags=('nonempty', 'early_stop', 'abs_nonempty'))
    return rep.finish("symbolic execution of the real match() on a real InMemMap with the real planar kernels (SYMX, z3 nlsat): cut-offs and "
                      "nearest-point claims (one existential witness) per state of the best path; cut-offs also over abstract geometry")


def replay_file(path):
    import json
    import_repo()
    d = json.load(open(path))
    if d.get('kind') == 'c14':
        from harness import C14
        return C14.replay_file(path)
    if d.get('kind') == 'greal':
        inst = ('greal', d['layout'], d['cfg']['fam'], d['cfg']['T'], d['cfg']['ne'], '1d', {k: d['cfg'][k] for k in ('sym_maxdist', 'sym_init', 'sym_minprob')})
        cfg = Cfg(**d['cfg'])
        mp = greal.new_map(d['layout'])
        mt = make_matcher(None, mp, cfg)
        concrete_thresholds(mt, cfg, d['thresholds'])
        print(mt.match([tuple(p) for p in d['path']]))
        print(d['observed'])
        return 1
    return gabs.replay(path, abs_claims)

"""Shared relational claims for the R-shaped G-abs harnesses (C06, C08, C10, C19)."""
import z3

from symx import engine as E
from symx.matchlib import TOL


def eff_idx(r):
    """index of the last matched observation, -1 for the empty result."""
    return r['idx'] if r['states'] else -1


def same_result(a, b, tag, allow_ties=True):
    """a, b: result dicts.  Same index, same probability, same path (unless the two paths are exactly equally probable)."""
    cl = []
    cl.append((f"{tag}:both_return_lists", a['states'] is not None and b['states'] is not None))
    if a['states'] is None or b['states'] is None:
        return cl
    cl.append((f"{tag}:same_index", bool(a['states']) == bool(b['states']) and a['idx'] == b['idx']))
    if a['states'] and b['states'] and a['idx'] == b['idx']:
        sa, sb = E.lift(a['score']), E.lift(b['score'])
        cl.append((f"{tag}:same_probability", z3.And(sa <= sb + TOL, sb <= sa + TOL)))
        ka = [(m.shortkey, m.obs, m.obs_ne) for m in a['lattice_best']]
        kb = [(m.shortkey, m.obs, m.obs_ne) for m in b['lattice_best']]
        if ka != kb and not allow_ties:
            cl.append((f"{tag}:same_path", False))
        # different paths with equal probability are exact ties: allowed by the property
    return cl

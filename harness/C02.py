"""C02 - reported probability is the model probability of the reported path (DESIGN.md section 5, C02).

K: BaseMatching.update/_update_inner (both matching classes) with symbolic scores / stop flags and sentinel slot values:
   a winning update copies every slot (slots are read from the classes), a losing one copies none.
B: real match() (+ widening / extension histories) over abstract geometry, non-emitting states on/off; on every path the
   fields reported along lattice_best are compared with an independent re-derivation of the documented model.
"""
import z3

from symx import engine as E
from symx import shims, runner, gabs
from symx import latticelib as LL
from symx.absmap import NAMED, library
from symx.common import Report, run_instances, import_repo, src_hash, write_replay

PID = 'C02'


# ------------------------------------------------------------------------------------------------ K: update
class Sentinel:
    def __init__(self, n):
        self.n = n

    def __repr__(self):
        return f"<{self.n}>"


def all_slots(cls):
    out = []
    for c in cls.__mro__:
        out.extend(getattr(c, '__slots__', []))
    return out


NUMERIC_SLOTS = ('logprobema', 'logprobe', 'logprobne', 'dist_obs', 'd_s', 'd_o', 'lpe', 'lpt', 'delayed')


def _update_classes():
    from leuvenmapmatching.matcher.base import BaseMatching
    from leuvenmapmatching.matcher.distance import DistanceMatching
    from leuvenmapmatching.matcher.simple import SimpleMatching
    return dict(BaseMatching=BaseMatching, DistanceMatching=DistanceMatching, SimpleMatching=SimpleMatching)


def _mk_update_entry(cls, slots, tag, lp, stop, num):
    """entry whose fields are recognisable tokens (identity is checked), except the numeric ones when values are given in num."""
    from leuvenmapmatching.util.segment import Segment
    m = cls(None, Segment("A", (0, 0), "B", (0, 1)), Segment("O", (0, 0)))
    for s in slots:
        if s not in ('logprob', 'stop', 'length', 'prev', 'prev_other', 'matcher'):
            setattr(m, s, num[s] if num is not None and s in num else Sentinel(f"{tag}.{s}"))
    m.logprob, m.stop, m.length, m.prev, m.prev_other = lp, stop, 3, {Sentinel(f"{tag}.prev")}, set()
    return m


def _update_judge(slots, a, b, before, r, numeric, eq):
    """(not copied after a winning update, changed by a losing update); eq compares two numeric field values."""
    def same(s, x, y):
        if x is y or (s in ('stop', 'length') and x == y):
            return True
        return bool(numeric and s in NUMERIC_SLOTS and eq(x, y))
    if r:
        return [s for s in slots if s not in ('prev_other', 'matcher') and not same(s, getattr(a, s), getattr(b, s))], []
    return [], [s for s in slots if s != 'prev_other' and not same(s, getattr(a, s), before[s])]


def run_update(inst):
    """K: one real update() between two entries.  Variant 'tokens': every field is a recognisable token and a winning update must
    carry over exactly the winner's objects; variant 'numeric': the numeric fields are arbitrary symbolic numbers and must carry the
    winner's values afterwards (so that an update that combines the two entries arithmetically is judged by value, not rejected)."""
    _, clsname = inst[:2]
    numeric = len(inst) > 2 and inst[2] == 'numeric'
    cls = _update_classes()[clsname]
    slots = all_slots(cls)

    def mk(eng, tag):
        num = {s: eng.fresh(f"{s}_{tag}") for s in slots if s in NUMERIC_SLOTS} if numeric else None
        return _mk_update_entry(cls, slots, tag, eng.fresh(f"lp_{tag}"), bool(eng.fresh_bool(f"stop_{tag}")), num)

    def scenario():
        eng = E.get_engine()
        a, b = mk(eng, 'cur'), mk(eng, 'new')
        before = {s: getattr(a, s) for s in slots}
        bvals = {s: getattr(b, s) for s in slots}
        r = a.update(b)
        return dict(a=a, b=b, before=before, bvals=bvals, r=r)

    def claims(eng, v):
        a, b, before, r = v['a'], v['b'], v['before'], v['r']
        lpa, lpb = E.lift(before['logprob']), E.lift(b.logprob)
        sa, sb = before['stop'], b.stop
        should = z3.Or(z3.BoolVal(sa and not sb), z3.And(z3.BoolVal(sa == sb), lpa < lpb))
        cl = [('replaced_iff_better', z3.BoolVal(bool(r)) == should)]
        notcopied, changed = _update_judge(slots, a, b, before, r, False, None)
        if numeric:
            for s in [x for x in (notcopied or changed) if x in NUMERIC_SLOTS]:
                want = getattr(b, s) if r else before[s]
                cl.append((f"{'winning_update_carries_the_value_of' if r else 'losing_update_keeps'}_{s}", E.lift(getattr(a, s)) == E.lift(want)))
            notcopied = [x for x in notcopied if x not in NUMERIC_SLOTS]
            changed = [x for x in changed if x not in NUMERIC_SLOTS]
        if r:
            cl.append((f'winning_update_copies_every_field (not copied: {notcopied})', z3.BoolVal(not notcopied)))
        else:
            cl.append((f'losing_update_changes_nothing (changed: {changed})', z3.BoolVal(not changed)))
        return cl

    def confirm(eng, model, v, cname):
        if isinstance(v, BaseException):
            if not numeric:
                return None           # tokens do not support arithmetic: the numeric variant judges such a tree
        def mv(x):
            return E.model_value(model, E.lift(x)) if E.is_sym(x) else x
        if isinstance(v, BaseException):
            # rebuild the inputs from the model by name
            def nm(n, b=False):
                return E.model_value(model, z3.Bool(n) if b else z3.Real(n))
            d = dict(kind='update', cls=clsname, numeric=True, lp_cur=nm('lp_cur'), lp_new=nm('lp_new'),
                     stop_cur=bool(nm('stop_cur', True)), stop_new=bool(nm('stop_new', True)),
                     num_cur={s: nm(f"{s}_cur") for s in slots if s in NUMERIC_SLOTS},
                     num_new={s: nm(f"{s}_new") for s in slots if s in NUMERIC_SLOTS})
        else:
            d = dict(kind='update', cls=clsname, numeric=numeric, lp_cur=mv(v['before']['logprob']), lp_new=mv(v['bvals']['logprob']),
                     stop_cur=v['before']['stop'], stop_new=v['bvals']['stop'])
            if numeric:
                d['num_cur'] = {s: mv(v['before'][s]) for s in slots if s in NUMERIC_SLOTS}
                d['num_new'] = {s: mv(v['bvals'][s]) for s in slots if s in NUMERIC_SLOTS}
        bad = judge_update(d)
        if bad:
            return dict(d, desc=f"{clsname}.update: {bad} (claim {cname})")
        return None

    def witness(eng, v):
        return ['replaced' if v['r'] else 'kept']
    return runner.explore(f"update {clsname}" + (" numeric fields" if numeric else ""), runner.lra_engine(5000), scenario, claims, confirm=confirm, witness=witness)


def judge_update(d):
    """the same update on plain floats with the unmodified code; returns None or a description"""
    cls = _update_classes()[d['cls']]
    slots = all_slots(cls)
    numeric = bool(d.get('numeric'))
    a = _mk_update_entry(cls, slots, 'cur', d['lp_cur'], d['stop_cur'], d.get('num_cur') if numeric else None)
    b = _mk_update_entry(cls, slots, 'new', d['lp_new'], d['stop_new'], d.get('num_new') if numeric else None)
    before = {s: getattr(a, s) for s in slots}
    try:
        r = a.update(b)
    except Exception as e:
        return f"update raised {e!r}"
    should = (d['stop_cur'] and not d['stop_new']) or (d['stop_cur'] == d['stop_new'] and d['lp_cur'] < d['lp_new'])
    notcopied, changed = _update_judge(slots, a, b, before, r, numeric, lambda x, y: x == y)
    if bool(r) != bool(should):
        return f"update returned {r}, expected {should}"
    if notcopied:
        return f"winning update did not carry over {notcopied}: " + ", ".join(f"{s}={getattr(a, s)!r} (winner has {getattr(b, s)!r})" for s in notcopied)
    if changed:
        return f"losing update changed {changed}"
    return None


def replay_update(d):
    bad = judge_update(d)
    print("update:", bad or "consistent")
    return 1 if bad else 0


def run_trans(inst):
    """K: one real logprob_trans call from a predecessor with ARBITRARY accumulated distances d_o, d_s >= 0 (zero included),
    relative positions and grand-predecessor, for every kind of move (same edge, reverse edge, connected, not connected) and every
    emitting / non-emitting combination; compared with the documented transition term."""
    from leuvenmapmatching.util.segment import Segment
    from symx.absmap import make_absmap_class, P
    from symx.matchlib import Cfg, make_matcher
    _, fam, goingback, pstate, sstate, pne, ne, ppstate = inst[:8]
    g = {"A": ["B"], "B": ["C", "A"], "C": ["D"], "D": [], "X": ["Y"], "Y": []}
    linked = {("A", "B"): [("X", "Y")]}
    cfg = Cfg(fam=fam, T=2, ne=True, goingback=goingback, sym_maxdist=False, sym_init=False, sym_minprob=False)
    AbsMap = make_absmap_class()
    shims.install()
    name = f"trans {fam} goingback={goingback} {pstate}->{sstate} prev_ne={pne} next_ne={ne} before={ppstate}"

    def seg_m(mp, st, pim, ti):
        return Segment(st[0], mp.loc[st[0]], st[1], mp.loc[st[1]], P(pim), E.Sym(ti))

    def seg_o(pio, obs, is_ne):
        if is_ne:
            sg = Segment(f"O{obs}", P(f"o{obs}"), f"O{obs + 1}", P(f"o{obs + 1}"))
            sg.pi = P(pio)
            return sg
        return Segment(f"O{obs}", P(f"o{obs}"))

    def scenario():
        eng = E.get_engine()
        mp = AbsMap(g, linked=linked)
        mt = make_matcher(eng, mp, cfg)
        pm = LL.PathModel(mp, mt, cfg)
        pobs, cobs = 0, (0 if ne and not pne else (0 if ne else 1))
        qp, pim_p, pio_p, ti_p = pm.geo(pstate, pobs, 1 if pne else 0)
        cne = (2 if pne else 1) if ne else 0
        qc, pim_c, pio_c, ti_c = pm.geo(sstate, cobs if ne else 1, cne if ne else 0)
        d_o, d_s = eng.fresh("prev_d_o"), eng.fresh("prev_d_s")
        eng.assume(z3.And(d_o.t >= 0, d_s.t >= 0))
        kw = dict(d_o=d_o, d_s=d_s) if fam == 'dist' else {}
        prev = mt.matching(mt, seg_m(mp, pstate, pim_p, ti_p), seg_o(pio_p, pobs, pne), logprob=eng.fresh("lp_prev"), obs=pobs,
                           obs_ne=1 if pne else 0, **kw)
        if ppstate is not None:
            _, pim_pp, pio_pp, ti_pp = pm.geo(ppstate, 0, 0)
            prev.prev = {mt.matching(mt, seg_m(mp, ppstate, pim_pp, ti_pp), seg_o(pio_pp, 0, False), logprob=eng.fresh("lp_pp"), obs=0)}
        em, eo = seg_m(mp, sstate, pim_c, ti_c), seg_o(pio_c, cobs if ne else 1, ne)
        lp, props = mt.logprob_trans(prev, em, eo, is_prev_ne=pne, is_next_ne=ne)
        info = dict(pim=pim_p, pio=pio_p, ti=ti_p, d_o=d_o.t, d_s=d_s.t)
        exp = pm.trans_term(info, pstate, pne, sstate, ne, pim_c, pio_c, ti_c, ppstate)
        return dict(lp=lp, props=props, exp=exp, d_o=d_o, d_s=d_s)

    def claims(eng, v):
        tr, edo, eds = v['exp']
        cl = [('transition_term', LL.near(v['lp'], tr))]
        if fam == 'dist':
            cl.append(('accumulated_observation_distance', LL.near(v['props']['d_o'], edo)))
            cl.append(('accumulated_state_distance', LL.near(v['props']['d_s'], eds)))
        return cl

    def confirm(eng, model, v, cname):
        # the call itself is the real code on this path; report the model's inputs (plain numbers) for the replay
        return dict(desc=f"logprob_trans {name}: {cname} differs from the documented term with prev d_o={E.model_value(model, v['d_o'].t)}, "
                         f"prev d_s={E.model_value(model, v['d_s'].t)}: got {E.model_value(model, E.lift(v['lp']))}, documented {E.model_value(model, v['exp'][0])}",
                    kind='trans')
    out = runner.explore(name, runner.nra_engine(8000) if fam == 'dist' else runner.lra_engine(8000), scenario, claims, confirm=confirm,
                         witness=lambda eng, v: ['trans_call'])
    shims.uninstall()
    return out


def run_next(inst):
    """K / one step: the real BaseMatching.next from a predecessor with ARBITRARY symbolic scores (logprob, logprobe, logprobne under
    the representation invariant logprob = logprobe + logprobne for a non-emitting predecessor, logprobe = logprob and logprobne = 0
    for an emitting one), chain length, accumulated distances and 'delayed' value, with symbolic cut-offs; every field of the
    returned entry (or the decision to drop it) is compared with the documented step."""
    from leuvenmapmatching.util.segment import Segment
    from symx.absmap import make_absmap_class, P
    from symx.matchlib import Cfg, make_matcher
    _, fam, pstate, sstate, pne, ne, length = inst[:7]
    g = {"A": ["B"], "B": ["C", "A"], "C": ["D"], "D": []} if fam != 'simple_n' else {"A": ["B"], "B": ["C"], "C": []}
    cfg = Cfg(fam=fam, T=2, ne=True, goingback=False, sym_maxdist=True, sym_init=False, sym_minprob=True, sym_nelf=True, noise_ne=0.5)
    AbsMap = make_absmap_class()
    shims.install()
    name = f"next {fam} {pstate}->{sstate} prev_ne={pne} next_ne={ne} chain_length={length}"

    def seg_m(mp, st, pim, ti):
        if isinstance(st, tuple):
            return Segment(st[0], mp.loc[st[0]], st[1], mp.loc[st[1]], P(pim), E.Sym(ti))
        return Segment(st, mp.loc[st])

    def scenario():
        eng = E.get_engine()
        mp = AbsMap(g)
        mt = make_matcher(eng, mp, cfg)
        pm = LL.PathModel(mp, mt, cfg)
        pobs = 0
        cobs, cne = (0, (2 if pne else 1)) if ne else (1, 0)
        qp, pim_p, pio_p, ti_p = pm.geo(pstate, pobs, 1 if pne else 0)
        lp, lpne = z3.Real("lp_prev"), z3.Real("lpne_prev")
        eng.assume(z3.And(lp <= 0, lpne <= 0))
        if pne:
            lpe = lp - lpne
            eng.assume(lpe <= 0)
        else:
            eng.assume(lpne == 0)
            lpe = lp
        d_o, d_s = eng.fresh("prev_d_o"), eng.fresh("prev_d_s")
        eng.assume(z3.And(d_o.t >= 0, d_s.t >= 0))
        delayed = eng.choose(2, tag="delayed")
        kw = dict(d_o=d_o, d_s=d_s) if fam == 'dist' else {}
        if pne:
            eo_p = Segment("O0", P("o0"), "O1", P("o1"))
            eo_p.pi = P(pio_p)
        else:
            eo_p = Segment("O0", P("o0"))
        prev = mt.matching(mt, seg_m(mp, pstate, pim_p, ti_p), eo_p, logprob=E.Sym(lp), logprobe=E.Sym(lpe), logprobne=(E.Sym(lpne) if pne else 0),
                           obs=pobs, obs_ne=1 if pne else 0, length=length, delayed=delayed, dist_obs=0.0, **kw)
        # the successor segment as the matcher builds it (positions are filled in by next())
        em = Segment(sstate[0], mp.loc[sstate[0]], sstate[1], mp.loc[sstate[1]]) if isinstance(sstate, tuple) else Segment(sstate, mp.loc[sstate])
        eo = Segment("O0", P("o0"), "O1", P("o1")) if ne else Segment("O1", P("o1"))
        m = prev.next(em, eo, obs=cobs, obs_ne=cne)
        info = dict(logprob=lp, logprobe=lpe, logprobne=(lpne if pne else z3.RealVal(0)), length=length, pim=pim_p, pio=pio_p, ti=ti_p,
                    d_o=d_o.t, d_s=d_s.t)
        return dict(m=m, prev=prev, info=info, pm=pm, mt=mt, cobs=cobs, cne=cne, delayed=delayed)

    def claims(eng, v):
        pm, info, m, mt = v['pm'], v['info'], v['m'], v['mt']
        q, pim, pio, ti = pm.geo(sstate, v['cobs'], v['cne'])
        em = -q / E.rv(pm.sig2_ne if ne else pm.sig2)
        tr, d_o, d_s = pm.trans_term(info, pstate, pne, sstate, ne, pim, pio, ti, None)
        delta = tr + em
        if not ne:
            lpe, lpne, lp, ln = info['logprob'] + delta, z3.RealVal(0), info['logprob'] + delta, length + 1
        else:
            lpe = info['logprobe'] + pm.nelf
            lpne = z3.If(delta < info['logprobne'], delta, info['logprobne'])
            lp, ln = lpe + lpne, length
        md = mt.max_dist
        ml = mt.min_logprob_norm.t
        stop_strict = z3.Or(lp / ln < ml - LL.TOL, q > md.sq)
        stop_loose = z3.Or(lp / ln < ml + LL.TOL, q > md.sq)
        node_rule = z3.BoolVal(False)
        if fam == 'simple_n' and isinstance(sstate, tuple) and not ne:
            eps = z3.Q(1, 10 ** 8)
            node_rule = z3.Or(z3.And(ti <= eps, ti >= -eps), z3.And(ti - 1 <= eps, ti - 1 >= -eps))
        cl = []
        if m is None:
            cl.append(('dropped_only_if_a_cut_off_applies', z3.Or(stop_loose, node_rule)))
            return cl
        cl.append(('kept_only_if_no_cut_off_applies', z3.And(z3.Not(stop_strict), z3.Not(node_rule))))
        cl.append(('logprob', LL.near(m.logprob, lp)))
        cl.append(('logprobe', LL.near(m.logprobe, lpe)))
        cl.append(('logprobne', LL.near(m.logprobne, lpne)))
        cl.append(('dist_obs', LL.radicand(m.dist_obs) == q))
        ok = (m.length == ln and m.obs == v['cobs'] and m.obs_ne == v['cne'] and not m.stop and m.delayed == v['delayed']
              and m.prev == {v['prev']} and all(p is v['prev'] for p in m.prev) and m.shortkey == sstate)
        cl.append((f'bookkeeping (length={m.length}, obs={m.obs},{m.obs_ne}, delayed={m.delayed}, stop={m.stop})', z3.BoolVal(bool(ok))))
        cl.append(('not_more_probable_than_predecessor', E.lift(m.logprob) <= info['logprob'] + LL.TOL))
        if fam == 'dist':
            cl.append(('d_o', LL.near(m.d_o, d_o)))
            cl.append(('d_s', LL.near(m.d_s, d_s)))
        return cl

    def confirm(eng, model, v, cname):
        if not isinstance(v, dict):
            return dict(desc=f"BaseMatching.next {name} raised {type(v).__name__}: {v}", kind='next')
        return dict(desc=f"BaseMatching.next {name}: {cname} differs from the documented step (prev logprob {E.model_value(model, v['info']['logprob'])}, "
                         f"result {'dropped' if v['m'] is None else E.model_value(model, E.lift(v['m'].logprob))})", kind='next')
    out = runner.explore(name, runner.nra_engine(8000) if fam == 'dist' else runner.lra_engine(8000), scenario, claims, confirm=confirm,
                         witness=lambda eng, v: ['next_dropped' if v['m'] is None else 'next_kept'])
    shims.uninstall()
    return out


def next_instances(tier):
    out = []
    for fam in ('dist', 'simple'):
        for (p_, s_) in ((("A", "B"), ("A", "B")), (("A", "B"), ("B", "C")), (("A", "B"), ("B", "A"))):
            for pne, ne in ((False, False), (False, True), (True, True), (True, False)):
                if ne and s_ == p_:
                    continue
                out.append(('next', fam, p_, s_, pne, ne, 3))
    out += [('next', 'simple_n', "A", "A", False, False, 2), ('next', 'simple_n', "A", ("A", "B"), False, False, 2),
            ('next', 'simple_n', ("A", "B"), "B", False, False, 2), ('next', 'simple_n', "A", "B", False, True, 2),
            ('next', 'simple_n', "A", "B", True, False, 1)]
    return out


def trans_instances(tier):
    out = []
    moves = [(("A", "B"), ("A", "B"), None), (("A", "B"), ("B", "A"), None), (("A", "B"), ("B", "C"), None), (("A", "B"), ("X", "Y"), None),
             (("B", "C"), ("C", "D"), ("A", "B")), (("B", "A"), ("A", "B"), ("A", "B"))]
    for fam in ('dist', 'simple'):
        for gb in (True, False):
            for (p_, s_, pp) in moves:
                for pne, ne in ((False, False), (False, True), (True, True), (True, False)):
                    if tier == 'quick' and fam == 'simple' and (pne or ne) and not gb:
                        continue
                    out.append(('trans', fam, gb, p_, s_, pne, ne, pp))
    return out


# ------------------------------------------------------------------------------------------------ B: re-derivation
def claims_fn(ctx):
    cl = []
    last = [r for r in ctx['results'] if r['states'] is not None]
    if not last:
        return cl
    # the claim is about the path reported by the last operation (mt.lattice_best belongs to it)
    cl += LL.c02_claims(ctx['mp'], ctx['mt'], ctx['cfg'])
    return cl


def witness_fn(ctx):
    lb = ctx['mt'].lattice_best or []
    tags = []
    if any(m.obs_ne > 0 for m in lb):
        tags.append('nonemitting_on_best_path')
    if any(m.obs_ne > 1 for m in lb):
        tags.append('two_nonemitting_levels_on_best_path')
    if len(lb) > 1:
        tags.append('multi_step_path')
    if len(ctx['ops']) > 1 and lb:
        tags.append('history_of_operations')
    return tags


NOSYM = dict(sym_maxdist=False, sym_init=False, sym_minprob=False)


def b_instances(tier):
    out = []
    g2, g3, gf = NAMED['line2'], NAMED['oneway3'], NAMED['fork']
    tri = NAMED['tri']
    if tier == 'quick':
        for fam in ('simple', 'dist'):
            for gb in (False, True):
                out.append(('line2', g2, dict(fam=fam, T=2, ne=False, goingback=gb, **NOSYM), [('match', 2)], {}))
                out.append(('oneway3', g3, dict(fam=fam, T=2, ne=True, goingback=gb, **NOSYM), [('match', 2)], {}))
            out.append(('tri', tri, dict(fam=fam, T=2, ne=True, **NOSYM), [('match', 2)], {}))
            out.append(('oneway4', NAMED['oneway4'], dict(fam=fam, T=2, ne=True, **NOSYM), [('match', 2)], {}))
            out.append(('oneway3', g3, dict(fam=fam, T=3, ne=True, **NOSYM), [('match', 3)], {}))
            out.append(('oneway4', NAMED['oneway4'], dict(fam=fam, T=3, ne=True, **NOSYM), [('match', 3)], {}))
            out.append(('oneway3', g3, dict(fam=fam, T=2, ne=True, width=1, **NOSYM), [('match', 2), ('widen', 2)], {}))
            out.append(('line2', g2, dict(fam=fam, T=3, ne=False, **NOSYM), [('match', 2), ('extend', 3)], {}))
            out.append(('line2', g2, dict(fam=fam, T=2, ne=False, sym_maxdist=True, sym_init=False, sym_minprob=True),
                        [('match', 2)], {}))
        out.append(('line2', g2, dict(fam='simple_n', T=2, ne=True, **NOSYM), [('match', 2)], {}))
        out.append(('oneway3', g3, dict(fam='simple_n', T=2, ne=False, goingback=True, **NOSYM), [('match', 2)], {}))
        # a repeated observation (stationary vehicle): observation 1 is the very same point as observation 0
        for fam in ('simple', 'dist'):
            out.append(('oneway2', NAMED['oneway2'], dict(fam=fam, T=3, ne=False, **NOSYM), [('sameobs', 1, 0), ('match', 3)], {}))
            out.append(('oneway3', g3, dict(fam=fam, T=3, ne=True, **NOSYM), [('sameobs', 2, 1), ('match', 3)], {}))
        out.append(('oneway3', g3, dict(fam='simple', T=2, ne=True, noise_ne=0.5, sym_nelf=True, **NOSYM), [('match', 2)], {}))
    else:
        graphs = [(n, g) for n, g in library(3, named=('fork', 'oneway4', 'path4')) if len([1 for u in g for v in g[u]]) <= 4]
        for name, g in graphs:
            for fam in ('simple', 'dist', 'simple_n'):
                for ne in (False, True):
                    for gb in (False, True):
                        for T in (2, 3):
                            out.append((name, g, dict(fam=fam, T=T, ne=ne, goingback=gb, **NOSYM), [('match', T)], {}))
                    out.append((name, g, dict(fam=fam, T=2, ne=ne, width=1, **NOSYM), [('match', 2), ('widen', 2)], {}))
                    out.append((name, g, dict(fam=fam, T=2, ne=ne, width=1, **NOSYM), [('match', 2), ('widen', 2), ('widen', 3)], {}))
                    out.append((name, g, dict(fam=fam, T=3, ne=ne, **NOSYM), [('match', 2), ('extend', 3)], {}))
                    out.append((name, g, dict(fam=fam, T=3, ne=ne, **NOSYM), [('match', 1), ('extend', 2), ('extend', 3)], {}))
                    out.append((name, g, dict(fam=fam, T=2, ne=ne, sym_maxdist=True, sym_init=False, sym_minprob=True), [('match', 2)], {}))
                out.append((name, g, dict(fam=fam, T=2, ne=True, noise_ne=0.5, sym_nelf=True, **NOSYM), [('match', 2)], {}))
    return out


def run_instance(inst):
    if inst[0] == 'update':
        return run_update(inst)
    if inst[0] == 'trans':
        return run_trans(inst)
    if inst[0] == 'next':
        return run_next(inst)
    return gabs.run(inst, claims_fn, witness_fn)


def main(tier):
    import_repo()
    from leuvenmapmatching.matcher import base as mb, simple as ms, distance as md
    rep = Report(PID, tier)
    shims.selftest_halfnorm()
    rep.functions = src_hash(mb.BaseMatching.next, mb.BaseMatching.first, mb.BaseMatching.update, mb.BaseMatching._update_inner,
                             md.DistanceMatching._update_inner, md.DistanceMatcher.logprob_trans, md.DistanceMatcher.logprob_obs,
                             ms.SimpleMatcher.logprob_trans, ms.SimpleMatcher.logprob_obs, mb.BaseMatcher._match_states,
                             mb.BaseMatcher._match_non_emitting_states, mb.BaseMatcher._match_non_emitting_states_inner,
                             mb.BaseMatcher._match_non_emitting_states_end, mb.BaseMatcher._build_matching_path)
    budget = 60 if tier == 'quick' else 900
    core_s = 16 * (120 if tier == 'quick' else 900)
    kres = run_instances(run_instance, [('update', c) for c in ('BaseMatching', 'SimpleMatching', 'DistanceMatching')] + [('update', c, 'numeric') for c in ('BaseMatching', 'DistanceMatching')] + trans_instances(tier) + next_instances(tier))
    res = gabs.run_all(rep, run_instance, b_instances(tier), budget, core_s)
    rep.bounds = dict(update="two entries of the same key, symbolic scores and stop flags, every slot of the class",
                      runs="abstract geometry; graphs " + ("line2, oneway3, tri, oneway4" if tier == 'quick' else "all digraphs <=3 nodes/<=4 edges + fork, oneway4, path4") +
                           "; T<=3; non-emitting on/off (<= |V| levels), avoid_goingback on/off; histories: match->widen(->widen), match->extend(->extend)",
                      budget_s=budget)
    rep.outside = ["rounding", "graphs/traces beyond the bound", "G-real projections (pi/ti exactness is C05/C13)"]
    rep.assumptions = ["AbsMap contract", "halfnorm formula shim", "tolerance 1e-8 on re-derived log-probabilities"]
    tags = gabs.collect(rep, list(kres) + list(res), PID,
                        need_tags=('replaced', 'kept', 'nonemitting_on_best_path', 'history_of_operations', 'trans_call', 'next_kept', 'next_dropped'))
    return rep.finish("symbolic execution of the real update()/match()/widen/extend over abstract geometry (SYMX, z3); the reported "
                      "fields along the best path are compared in the solver with an independent re-derivation of the documented model")


def replay_file(path):
    import json
    import_repo()
    with open(path) as f:
        d = json.load(f)
    if d.get('kind') == 'update':
        return replay_update(d)
    if d.get('kind') in ('trans', 'next'):
        print(d['observed'])
        return 1
    return gabs.replay(path, claims_fn)

"""C17 - matching is total on valid input and ignores timestamps (DESIGN.md section 5, C17).

R in G-real (shape matters: the real kernels are called with the real tuples): the same trace as (y, x) pairs and as
(y, x, time) triples whose third component is an opaque object, matched by two fresh matchers inside one symbolic path.
Assertion: neither run raises; same states, index and probability.  Planar metric: real kernels over z3 reals (degenerate inputs -
observation on a node/edge, repeated observations, zero-length edges - are ordinary models).  Latitude-longitude metric: the
transcendental functions are opaque stand-ins, so only control flow / tuple handling is exercised there.
FP guard lemma as in C09 (the monotone-probability guard cannot raise).
"""
import z3

from symx import engine as E
from symx import shims, runner, greal, fp, opaque
from symx.common import Report, run_instances, import_repo, src_hash, write_replay, load_findings
from symx.matchlib import Cfg, make_matcher, TOL, concrete_thresholds, threshold_values

PID = 'C17'


def instances(tier):
    out = []
    NOS = dict(sym_maxdist=False, sym_init=False, sym_minprob=False)
    MD = dict(sym_maxdist=True, sym_init=False, sym_minprob=False)
    if tier == 'quick':
        for fam in ('simple', 'dist', 'simple_n'):
            out.append(('planar', 'line2', fam, 2, False, '1d', NOS))
            out.append(('planar', 'oneway3', fam, 2, True, '1d', NOS))
            out.append(('latlon', 'line2', fam, 2, False, '1d', NOS))
            out.append(('latlon', 'oneway3', fam, 2, True, '1d', NOS))
        out.append(('planar', 'line2', 'simple', 1, False, '2d', MD))
        out.append(('planar', 'zerolen3', 'dist', 2, True, '1d', NOS))
        out.append(('planar', 'oneway2', 'simple', 2, False, '1d', MD))
        out.append(('latlon', 'oneway2', 'simple', 2, False, '1d', MD))
        out.append(('latlon', 'oneway2', 'dist', 1, False, '1d', MD))
    else:
        for metric in ('planar', 'latlon'):
            for lay in ('line2', 'oneway2', 'oneway3', 'corner3', 'zerolen3', 'oneway4', 'tri'):
                for fam in ('simple', 'dist', 'simple_n'):
                    for ne in (False, True):
                        for T in (1, 2, 3):
                            for sym in (NOS, MD):
                                out.append((metric, lay, fam, T, ne, '1d', sym))
    return out


def run_instance(inst):
    if inst[0] == 'fp':
        from harness import C09
        return C09.run_instance(inst)
    metric, lay, fam, T, ne, mode, sym = inst[:7]
    budget = inst[7] if len(inst) > 7 else None
    cfg = Cfg(fam=fam, T=T, ne=ne, **sym)
    shims.install()
    opq = opaque.Opaque()
    latlon = metric == 'latlon'
    if latlon:
        opq.install()
    name = f"{metric} {lay} {cfg.describe()} obs={mode}"
    holder = {}
    grid_cache = {}

    def scenario():
        eng = E.get_engine()
        opq.reset()
        pairs = greal.make_path(eng, T, mode)
        triples = [(p[0], p[1], greal.Timestamp(i)) for i, p in enumerate(pairs)]
        holder.clear()
        holder.update(pairs=pairs, stage='pairs')
        res = []
        for kind, path in (('pairs', pairs), ('triples', triples)):
            holder['stage'] = kind
            mp = greal.new_map(lay, use_latlon=latlon)
            mt = make_matcher(eng, mp, cfg)
            st, idx = mt.match(path)
            lb = list(mt.lattice_best or [])
            res.append(dict(kind=kind, states=st, idx=idx, lb=lb, score=lb[-1].logprob if lb else None))
        return dict(res=res, pairs=pairs)

    def claims(eng, v):
        a, b = v['res']
        cl = [('both_return_a_state_list_and_index', z3.BoolVal(isinstance(a['states'], list) and isinstance(b['states'], list)
                                                               and isinstance(a['idx'], int) and isinstance(b['idx'], int)))]
        cl.append(('triples_give_the_result_of_pairs', z3.BoolVal(a['states'] == b['states'] and a['idx'] == b['idx'])))
        if a['lb'] and b['lb']:
            cl.append(('same_probability', z3.And(E.lift(a['score']) <= E.lift(b['score']) + TOL, E.lift(b['score']) <= E.lift(a['score']) + TOL)))
        return cl

    def concrete_runs(cpairs, thr):
        """run the unmodified code on doubles: pairs and triples.  Returns list of (kind, result | exception)."""
        out = []
        with shims.concrete():
            if latlon:
                opq.uninstall()
            try:
                for kind in ('pairs', 'triples'):
                    path = [(p[0], p[1]) if kind == 'pairs' else (p[0], p[1], 1000.0 + i) for i, p in enumerate(cpairs)]
                    mp = greal.new_map(lay, use_latlon=latlon)
                    mt = make_matcher(None, mp, cfg)
                    concrete_thresholds(mt, cfg, thr)
                    try:
                        st, idx = mt.match(path)
                        out.append((kind, (st, idx), (float(mt.lattice_best[-1].logprob) if st else None)))
                    except Exception as e:
                        out.append((kind, e, None))
            finally:
                if latlon:
                    opq.install()
        return out

    def judge(cpairs, thr):
        runs = concrete_runs(cpairs, thr)
        for kind, r, _ in runs:
            if isinstance(r, Exception):
                return f"match() with {kind} {cpairs} raised {type(r).__name__}: {r}"
        if runs[0][1] != runs[1][1] and not (runs[0][1][1] == runs[1][1][1] and list(runs[0][1][0]) == list(runs[1][1][0])):
            return f"pairs give {runs[0][1]} but triples give {runs[1][1]} for {cpairs}"
        pa, pb = runs[0][2], runs[1][2]
        if pa is not None and pb is not None and abs(pa - pb) > 1e-9 * max(1.0, abs(pa)):
            return f"pairs give best log-probability {pa} but triples give {pb} for {cpairs} (result {runs[0][1]})"
        return None

    def confirm(eng, model, v, cname):
        pairs = holder.get('pairs') if not isinstance(v, dict) else v['pairs']
        if latlon:
            # opaque trigonometry: the model has no coordinates; replay on a small grid of concrete coordinates around the
            # layout (degrees) with a few concrete thresholds (metres)
            cands = [([(0.00001 * (3 * i + k) - 0.2 * (k == 3), 0.3 * i + 0.2 * k) for i in range(T)], thr)
                     for k in range(4) for thr in (dict(max_dist=50000.0), dict(max_dist=10.0))]
            # repeated observations (a stationary vehicle: same position, later timestamp) and observations exactly on a node
            node0 = tuple(greal.LAYOUTS[lay][0][sorted(greal.LAYOUTS[lay][0])[0]][0]) if lay in greal.LAYOUTS else None
            reps = [[(0.00002, 0.1)] * T, [(0.00002, 0.1)] * max(T - 1, 1) + [(0.00003, 0.6)] * (1 if T > 1 else 0), [(0.0, 0.0)] * T]
            if node0 is not None:
                reps.append([node0] * T)
            cands += [(rp[:T], thr) for rp in reps for thr in (dict(max_dist=50000.0),)]
        else:
            cands = [(greal.concrete_path(model, pairs), threshold_values(model, cfg))]
        if latlon and 'grid' in grid_cache:
            return grid_cache['grid'] and dict(grid_cache['grid'])      # the lat-lon replay grid does not depend on the model: once per instance
        out = None
        for cp, thr in cands:
            bad = judge([tuple(p[:2]) for p in cp], thr)
            if bad:
                out = dict(desc=bad, metric=metric, layout=lay, cfg=dict(fam=fam, T=T, ne=ne, **sym), path=[list(p[:2]) for p in cp],
                           thresholds=thr, kind='c17')
                break
        if latlon:
            grid_cache['grid'] = out
        return out

    def witness(eng, v):
        a = v['res'][0]
        return ['nonempty' if a['states'] else 'empty'] + (['nonemitting_on_best_path'] if any(m.obs_ne for m in a['lb']) else [])
    try:
        out = runner.explore(name, runner.nra_engine(10000) if not latlon else runner.lra_engine(5000), scenario, claims, confirm=confirm,
                             witness=witness, budget_s=budget, exc_is_violation=True,
                             sample_fmt=lambda v: [(r['kind'], repr(r['states']), r['idx']) for r in v['res']])
    finally:
        shims.uninstall()
        opq.uninstall()
    return out


def main(tier):
    import_repo()
    from leuvenmapmatching.matcher import base as mb, simple as ms
    from leuvenmapmatching.util import dist_euclidean as de, dist_latlon as dl, segment as sg
    from leuvenmapmatching.map import inmem
    rep = Report(PID, tier)
    shims.selftest_halfnorm()
    rep.validated += fp.validate_translation(mb.BaseMatching.next)
    rep.functions = src_hash(mb.BaseMatching.next, mb.BaseMatcher.match, mb.BaseMatcher._create_start_nodes, ms.SimpleMatcher.logprob_obs,
                             de.distance_segment_to_segment, de.distance_point_to_segment, de.project, dl.distance_point_to_segment,
                             dl.distance_segment_to_segment, dl.distance, dl.box_around_point, sg.Segment, inmem.InMemMap.nodes_closeto,
                             inmem.InMemMap.edges_closeto)
    from symx.common import fit_budget
    budget = fit_budget(len(instances(tier)), tier, 60, 60)
    insts = [i + (budget,) for i in instances(tier)] + [('fp', 'emitting', 64, 120)] + ([('fp', 'nonemitting', 16, 300)] if tier == 'thorough' else [])
    res = run_instances(run_instance, insts)
    rep.bounds = dict(layouts="line2, oneway2, oneway3, zerolen3" if tier == 'quick' else "line2, oneway2, oneway3, corner3, zerolen3, oneway4, tri",
                      T="1..%d" % (2 if tier == 'quick' else 3), metrics="planar: real kernels over reals; latitude-longitude: opaque trigonometric stand-ins (control flow and tuple handling only)",
                      config="three matcher families, non-emitting on/off, max_dist symbolic or none")
    rep.outside = ["SimpleMatcher.logprob_obs(0) > 0 for some noise values (libm rounding of log: not encodable; e.g. obs_noise=25 raises - observed concretely, see DESIGN.md)",
                   "numeric behaviour of the lat-lon kernels (C14)", "rounding except the FP guard lemma"]
    rep.assumptions = ["third trace component is an opaque object", "lat-lon: sin/cos/asin/acos/atan2/sqrt/radians/degrees are uninterpreted (memoised per argument)"]
    findings = load_findings(PID)
    tags, known, artifacts = {}, set(), {}
    for r in sorted(res, key=lambda r: r['name']):
        rep.add_instance(r)
        for t, n in r.get('tags', {}).items():
            tags[t] = tags.get(t, 0) + n
        for v in r.get('violations', []):
            fn = write_replay(PID, dict(property=PID, instance=r['name'], **{k: v[k] for k in v if k != 'desc'}, observed=v['desc']))
            rep.violations.append(dict(replay=fn, msg=f"{r['name']} claim={v['claim']}: {v['desc']}"))
        for c in r.get('candidates', []):
            if r['name'].startswith('latlon') and c.get('claim') == 'exception':
                # arithmetic exceptions on paths that only exist because the trigonometric functions are uninterpreted
                artifacts[c.get('desc', '')[:60]] = artifacts.get(c.get('desc', '')[:60], 0) + 1
            else:
                rep.unconfirmed.append(f"{r['name']}: {c}")
    rep.extra['reachability_tags'] = tags
    rep.extra['latlon_exception_paths_not_reproducible_on_concrete_coordinates (abstraction artifacts)'] = artifacts
    if not tags.get('nonempty'):
        rep.harness_errors.append("vacuity: no non-empty result")
    return rep.finish("relational symbolic execution: the same symbolic trace as pairs and as triples through the real matcher, real InMemMap and "
                      "real kernels (planar: z3 nlsat; lat-lon: opaque trigonometry); exceptions are outcomes; IEEE-754 guard lemma (z3 QF_FP)")


def replay_file(path):
    import json
    import_repo()
    d = json.load(open(path))
    if d.get('kind') != 'c17':
        print(d.get('observed'))
        return 1
    cfg = Cfg(**d['cfg'])
    bad = None
    res = []
    for kind in ('pairs', 'triples'):
        p = [tuple(x) if kind == 'pairs' else (x[0], x[1], 1000.0 + i) for i, x in enumerate(d['path'])]
        mt = make_matcher(None, greal.new_map(d['layout'], use_latlon=d['metric'] == 'latlon'), cfg)
        concrete_thresholds(mt, cfg, d.get('thresholds', {}))
        try:
            res.append(mt.match(p))
        except Exception as e:
            bad = f"{kind}: {type(e).__name__}: {e}"
            break
    if bad is None and len(res) == 2 and (res[0][1] != res[1][1] or list(res[0][0]) != list(res[1][0])):
        bad = f"pairs {res[0]} vs triples {res[1]}"
    print(bad or "consistent")
    return 1 if bad else 0

"""C03 - result aligned with the observations, last index truthful (DESIGN.md section 5, C03).

Shape B/R in G-abs: real match() with unique=False and unique=True in one symbolic path, cut-offs symbolic so that
every early-stop position (observation 0, 1, last) is reachable; structural alignment claims on the concrete lattice
objects of each path, truthfulness of the index / of the empty result against the admissible-walk oracle in the solver.
"""
import z3

from symx import shims, gabs
from symx import latticelib as LL
from symx.absmap import NAMED, library
from symx.common import Report, import_repo, src_hash
from symx.matchlib import Oracle

PID = 'C03'


def claims_fn(ctx):
    cfg, cl = ctx['cfg'], []
    rs = [r for r in ctx['results'] if r['op'][0] in ('match', 'match_u', 'extend', 'widen')]
    for ri, r in enumerate(rs):
        uniq = r['op'][0] == 'match_u'
        T = r['op'][1] if r['op'][0] != 'widen' else r['T']
        tag = ('unique' if uniq else 'plain') if r['op'][0] in ('match', 'match_u') else f"{r['op'][0]}#{ri}"
        mt = r['mt']
        # structural alignment (on the lattice objects of this run)
        class V:   # view of the matcher at the time of this result
            lattice_best = r['lattice_best']
        for nm, f in LL.c03_claims(V, cfg, r['states'], r['idx'], uniq, T):
            cl.append((f"{tag}:{nm}", f))
        cl.append((f"{tag}:result_is_a_list", r['states'] is not None))
        # truthfulness of index / empty result (emitting-only, unpruned: the admissible-walk oracle applies)
        if not cfg.ne and cfg.width is None and r['states'] is not None:
            orc = Oracle(r['mp'], mt, cfg)
            if not r['states']:
                cl.append((f"{tag}:empty_iff_no_admissible_first_candidate",
                           z3.And(*[z3.Not(orc.adm_strict(w)) for w in orc.walks(1)])))
            else:
                k = r['idx'] + 1
                got = [m.shortkey for m in r['lattice_best']]
                cl.append((f"{tag}:nonempty_means_admissible_first_candidate", z3.Or(*[orc.adm_loose(w) for w in orc.walks(1)])))
                if k < T:
                    cl.append((f"{tag}:index_is_last_matchable_observation",
                               z3.And(*[z3.Not(orc.adm_strict(w)) for w in orc.walks(k + 1)])))
                if len(got) == k:
                    cl.append((f"{tag}:whole_prefix_up_to_index_is_explained", orc.adm_loose(got)))
    if len(rs) == 2 and rs[1]['op'][0] == 'match_u' and rs[0]['states'] is not None and rs[1]['states'] is not None:
        a, b = rs
        cl.append(('unique_only_collapses_repeats', a['idx'] == b['idx'] and
                   [k for i, k in enumerate(a['states']) if i == 0 or k != a['states'][i - 1]] == list(b['states'])))
    return cl


def witness_fn(ctx):
    r = [x for x in ctx['results'] if x['op'][0] in ('match', 'match_u')][0]
    T = r['op'][1]
    if not r['states']:
        return ['empty']
    tags = ['stop_after_observation_%d' % r['idx'] if r['idx'] < T - 1 else 'complete']
    if any(m.obs_ne > 0 for m in r['lattice_best']):
        tags.append('nonemitting_on_best_path')
    ks = [m.shortkey for m in r['lattice_best']]
    if any(a == b for a, b in zip(ks, ks[1:])):
        tags.append('repeated_state')
    return tags


ALLSYM = dict(sym_maxdist=True, sym_init=True, sym_minprob=True)
MD = dict(sym_maxdist=True, sym_init=False, sym_minprob=False)
MP = dict(sym_maxdist=False, sym_init=False, sym_minprob=True)


def instances(tier):
    out = []
    g2, g3 = NAMED['line2'], NAMED['oneway3']
    ow2 = NAMED['oneway2']
    if tier == 'quick':
        for fam in ('simple', 'dist', 'simple_n'):
            out.append(('oneway2', ow2, dict(fam=fam, T=1, ne=False, **ALLSYM), [('match', 1), ('match_u', 1)], {}))
            out.append(('oneway2', ow2, dict(fam=fam, T=2, ne=False, **ALLSYM), [('match', 2), ('match_u', 2)], {}))
            out.append(('oneway2', ow2, dict(fam=fam, T=3, ne=False, **MD), [('match', 3), ('match_u', 3)], {}))
            out.append(('line2', g2, dict(fam=fam, T=2, ne=False, **MD), [('match', 2), ('match_u', 2)], {}))
            out.append(('line2', g2, dict(fam=fam, T=3, ne=False, sym_maxdist=False, sym_init=False, sym_minprob=False), [('match', 3), ('match_u', 3)], {}))
            out.append(('oneway3', g3, dict(fam=fam, T=2, ne=True, **MD), [('match', 2), ('match_u', 2)], {}))
        out.append(('oneway4', NAMED['oneway4'], dict(fam='simple', T=2, ne=True, **MD), [('match', 2), ('match_u', 2)], {}))
        # the same claims with the package logger at DEBUG (stopped candidates are then kept in the lattice; the result may not change)
        for fam in ('simple', 'dist'):
            out.append(('oneway2', ow2, dict(fam=fam, T=1, ne=False, **ALLSYM), [('loglevel', 'DEBUG'), ('match', 1), ('match_u', 1)], {}))
            out.append(('oneway2', ow2, dict(fam=fam, T=2, ne=False, **ALLSYM), [('loglevel', 'DEBUG'), ('match', 2), ('match_u', 2)], {}))
            out.append(('line2', g2, dict(fam=fam, T=3, ne=False, **MD), [('loglevel', 'DEBUG'), ('match', 3), ('match_u', 3)], {}))
        out.append(('oneway3', g3, dict(fam='simple_n', T=2, ne=True, **MD), [('loglevel', 'DEBUG'), ('match', 2), ('match_u', 2)], {}))
        # the same claims for the result of an incremental extension (the prefix may have stopped early before its last observation)
        # and of a widening call
        for fam in ('simple', 'dist'):
            out.append(('oneway2', ow2, dict(fam=fam, T=4, ne=False, **MD), [('match', 3), ('extend', 4)], {}))
            out.append(('oneway2', ow2, dict(fam=fam, T=3, ne=False, **MD), [('match', 2), ('extend', 3)], {}))
            out.append(('oneway3', g3, dict(fam=fam, T=3, ne=True, **MD), [('match', 2), ('extend', 3)], {}))
            out.append(('line2', g2, dict(fam=fam, T=3, ne=False, width=1, **MD), [('match', 3), ('widen', 2)], {}))
        out.append(('oneway3', g3, dict(fam='simple', T=3, ne=False, **MP), [('match', 3), ('match_u', 3)], {}))
        out.append(('oneway3', g3, dict(fam='simple', T=2, ne=False, width=1, **MD), [('match', 2), ('match_u', 2)], {}))
    else:
        for name, g in [x for x in library(3, named=('fork', 'oneway4')) if len([1 for u in x[1] for v in x[1][u]]) <= 4]:
            for fam in ('simple', 'dist', 'simple_n'):
                for ne in (False, True):
                    for T in (1, 2, 3):
                        for sym in (MD, MP, ALLSYM):
                            if sym is ALLSYM and T == 3:
                                continue
                            out.append((name, g, dict(fam=fam, T=T, ne=ne, **sym), [('match', T), ('match_u', T)], {}))
                    out.append((name, g, dict(fam=fam, T=2, ne=ne, width=1, **MD), [('match', 2), ('match_u', 2)], {}))
                    out.append((name, g, dict(fam=fam, T=2, ne=ne, **ALLSYM), [('loglevel', 'DEBUG'), ('match', 2), ('match_u', 2)], {}))
                    out.append((name, g, dict(fam=fam, T=3, ne=ne, **MD), [('loglevel', 'DEBUG'), ('match', 3), ('match_u', 3)], {}))
    return out


def run_instance(inst):
    return gabs.run(inst, claims_fn, witness_fn)


def main(tier):
    import_repo()
    from leuvenmapmatching.matcher import base as mb
    rep = Report(PID, tier)
    shims.selftest_halfnorm()
    rep.functions = src_hash(mb.BaseMatcher.match, mb.BaseMatcher._build_node_path, mb.BaseMatcher._build_matching_path,
                             mb.BaseMatcher._create_start_nodes, mb.BaseMatching.key, mb.BaseMatcher._match_non_emitting_states)
    budget = 60 if tier == 'quick' else 900
    res = gabs.run_all(rep, run_instance, instances(tier), budget, 16 * (100 if tier == 'quick' else 900))
    rep.bounds = dict(graphs="oneway2, line2, oneway3, oneway4" if tier == 'quick' else "all digraphs <=3 nodes/<=4 edges, fork, oneway4",
                      T="1..3", config="max_dist / max_dist_init / min_prob_norm symbolic (so that a stop after observation 0, 1, .. is reachable); "
                      "both unique values in one path; three matcher families; non-emitting on/off; one width-1 instance; logger at ERROR and (7 instances) at DEBUG")
    rep.outside = ["rounding", "index truthfulness with non-emitting states or width (structural claims only there)", "graphs/traces beyond the bound"]
    rep.assumptions = ["AbsMap contract", "halfnorm formula shim", "probability threshold band +-1e-9"]
    gabs.collect(rep, res, PID, need_tags=('empty', 'complete', 'stop_after_observation_0', 'repeated_state'))
    return rep.finish("symbolic execution of the real match() (unique on/off) over abstract geometry with symbolic cut-offs; structural "
                      "alignment claims per path, index truthfulness against the admissible-walk oracle decided by z3")


def replay_file(path):
    import_repo()
    return gabs.replay(path, claims_fn)

"""Shared helpers for the SqliteMap harnesses (C11 sqlite part, C12, C18): installation of the SQL shim and its
validation against the real sqlite3 (translator validation: the same concrete scripts through both)."""
import os
import random
import shutil
import tempfile

from symx import sqlshim


def scratch_dir():
    return tempfile.mkdtemp(prefix='lmm-verif-sql-', dir='/var/tmp')


def install():
    from leuvenmapmatching.map import sqlite as sq
    sq._real_sqlite3 = getattr(sq, '_real_sqlite3', sq.sqlite3)
    sq.sqlite3 = sqlshim
    sqlshim.reset()


def uninstall():
    from leuvenmapmatching.map import sqlite as sq
    if hasattr(sq, '_real_sqlite3'):
        sq.sqlite3 = sq._real_sqlite3


def snapshot(m, queries):
    """All observable answers of a map as plain data (order-insensitive where the backend does not define one)."""
    out = {}
    out['size'] = m.size()
    out['labels'] = sorted(m.labels())
    out['use_latlon'] = bool(m.use_latlon)
    out['all_nodes'] = sorted(m.all_nodes())
    out['all_edges'] = sorted(m.all_edges())
    out['coords'] = {n: tuple(m.node_coordinates(n)) for n in out['labels']}
    out['nbr'] = {n: sorted(x for x in m.nodes_nbrto(n)) for n in out['labels']}
    out['enbr'] = {(a, b): sorted(m.edges_nbrto((a, b))) for a, _, b, _ in out['all_edges']}
    try:
        out['bb'] = tuple(m.bb())
    except Exception as e:
        out['bb'] = repr(e)
    for i, (loc, r, bb) in enumerate(queries):
        out[f'nodes_closeto{i}'] = m.nodes_closeto(loc, max_dist=r)
        out[f'edges_closeto{i}'] = m.edges_closeto(loc, max_dist=r)
        out[f'all_nodes_bb{i}'] = sorted(m.all_nodes(bb=bb))
        out[f'all_edges_bb{i}'] = sorted(m.all_edges(bb=bb))
    return out


def random_script(rnd, n_nodes=4):
    nodes = [(i + 1, (round(rnd.uniform(-2, 2), 3), round(rnd.uniform(-2, 2), 3))) for i in range(n_nodes)]
    edges = []
    for a in range(1, n_nodes + 1):
        for b in range(1, n_nodes + 1):
            if a != b and rnd.random() < 0.35:
                edges.append((a, b))
    mode = rnd.choice(['single', 'bulk', 'noindex'])
    queries = [((rnd.uniform(-2, 2), rnd.uniform(-2, 2)), rnd.uniform(0.3, 2.5),
                (rnd.uniform(-2, 0), rnd.uniform(-2, 0), rnd.uniform(0, 2), rnd.uniform(0, 2))) for _ in range(2)]
    return nodes, edges, mode, queries


def build(SqliteMap, name, d, nodes, edges, mode, use_latlon=False):
    m = SqliteMap(name, use_latlon=use_latlon, dir=d)
    if mode == 'single':
        for k, loc in nodes:
            m.add_node(k, loc)
        for a, b in edges:
            m.add_edge(a, b)
    elif mode == 'bulk':
        m.add_nodes(nodes)
        m.add_edges(edges)
    else:
        for k, loc in nodes:
            m.add_node(k, loc, no_index=True, no_commit=True)
        for a, b in edges:
            m.add_edge(a, b, no_index=True, no_commit=True)
        m.db.commit()
        m.reindex_nodes()
        m.reindex_edges()
    return m


def raw_selftest(seed=0):
    """statement-level comparison of the shim with the real sqlite3 for the constructs the repository does not use today but a
    changed tree may (arithmetic in ORDER BY, DESC, LIMIT with parameters).  Disagreement is a harness error."""
    import sqlite3
    rnd = random.Random(seed)
    rows = [(i, float(rnd.randint(-3, 3)), float(rnd.randint(-3, 3))) for i in range(7)]
    stmts = [("SELECT id FROM pts ORDER BY (x - ?) * (x - ?) + (y - ?) * (y - ?), id LIMIT ?", (0.5, 0.5, -1.0, -1.0, 3)),
             ("SELECT id, x FROM pts WHERE x >= ? ORDER BY y DESC, id", (-1.0,)),
             ("SELECT id FROM pts p ORDER BY p.x + p.y * 2 - 1, id DESC LIMIT 4", ()),
             ("SELECT id FROM pts WHERE id NOT IN (SELECT q.id FROM pts q WHERE q.x > q.y) ORDER BY id", ()),
             ("SELECT id FROM pts WHERE x >= ? AND id IN (SELECT q.id FROM pts q WHERE q.x <= q.y) ORDER BY id DESC", (-2.0,))]
    d = scratch_dir()
    try:
        out = []
        for mod, path in ((sqlite3, os.path.join(d, "raw.sqlite")), (sqlshim, os.path.join(d, "raw_shim.sqlite"))):
            if mod is sqlshim:
                sqlshim.reset()
            con = mod.connect(path)
            c = con.cursor()
            c.execute("CREATE TABLE pts (id INTEGER PRIMARY KEY, x REAL, y REAL)")
            for r in rows:
                c.execute("INSERT INTO pts (id, x, y) VALUES (?, ?, ?)", r)
            con.commit()
            res = []
            for q, prm in stmts:
                c.execute(q, prm)
                res.append([tuple(r) for r in c.fetchall()])
            out.append(res)
            con.close()
        if out[0] != out[1]:
            raise SystemExit(f"harness error: SQL shim disagrees with sqlite3 on ORDER BY / LIMIT statements: real={out[0]} shim={out[1]}")
    finally:
        shutil.rmtree(d, ignore_errors=True)
    return len(stmts)


def selftest(n=25, seed=None):
    """Run n random concrete scripts through SqliteMap on the real sqlite3 and on the shim; any disagreement is a harness
    error.  Returns the number of scripts compared."""
    import contextlib
    import io
    from leuvenmapmatching.map.sqlite import SqliteMap
    if seed is None:
        from symx.common import seed as _seed
        seed = _seed()
    raw_selftest(seed)
    rnd = random.Random(seed)
    d = scratch_dir()
    try:
        for i in range(n):
            nodes, edges, mode, queries = random_script(rnd)
            snaps = []
            for backend in ('real', 'shim'):
                if backend == 'shim':
                    install()
                else:
                    uninstall()
                try:
                    with contextlib.redirect_stdout(io.StringIO()):
                        m = build(SqliteMap, f"st{i}_{backend}", d, nodes, edges, mode)
                        s1 = snapshot(m, queries)
                        m2 = SqliteMap.from_file(os.path.join(d, f"st{i}_{backend}.sqlite"))
                        s2 = snapshot(m2, queries)
                finally:
                    uninstall()
                snaps.append((s1, s2))
            for k in (0, 1):
                a, b = snaps[0][k], snaps[1][k]
                if a != b:
                    diff = [key for key in a if a[key] != b.get(key)]
                    raise SystemExit(f"harness error: SQL shim disagrees with sqlite3 on script {i} ({mode}, {'reopened' if k else 'fresh'}): keys {diff}: "
                                     f"real={ {x: a[x] for x in diff[:2]} } shim={ {x: b[x] for x in diff[:2]} }")
        return n
    finally:
        shutil.rmtree(d, ignore_errors=True)

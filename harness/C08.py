"""C08 - incremental matching equals one-shot matching (DESIGN.md section 5, C08).

Shape R in G-abs: match(path[:k]) then match(path[:k2], expand=True) ... on one matcher, and match(path) on a fresh matcher,
inside one symbolic path (shared symbols).  Assertion: same index, same probability, same best path up to exact ties.
"""
from symx import shims, gabs
from symx.absmap import NAMED, library
from symx.common import Report, import_repo, src_hash
from harness.relational import same_result

PID = 'C08'


def claims_fn(ctx):
    rs = ctx['results']
    inc = [r for r in rs if r['gen'] == 0][-1]
    one = [r for r in rs if r['gen'] == 1][-1]
    return same_result(inc, one, 'incremental_vs_oneshot')


def witness_fn(ctx):
    rs = ctx['results']
    inc = [r for r in rs if r['gen'] == 0]
    one = [r for r in rs if r['gen'] == 1][-1]
    T = one['op'][1]
    tags = []
    if one['states'] and one['idx'] == T - 1:
        tags.append('complete')
    elif one['states']:
        tags.append('early_stop')
        if inc[0]['T'] - 1 > one['idx']:
            tags.append('early_stop_inside_first_prefix')
    else:
        tags.append('empty')
    if any(m.obs_ne > 0 for m in one['lattice_best']):
        tags.append('nonemitting_on_best_path')
    return tags


NOSYM = dict(sym_maxdist=False, sym_init=False, sym_minprob=False)
MD = dict(sym_maxdist=True, sym_init=False, sym_minprob=False)
MP = dict(sym_maxdist=False, sym_init=False, sym_minprob=True)


def splits(T):
    out = [[k, T] for k in range(1, T)]
    if T >= 3:
        out += [[a, b, T] for a in range(1, T) for b in range(a + 1, T)]
    return out


def ops_for(sp):
    ops = [('match', sp[0])] + [('extend', k) for k in sp[1:]]
    return ops + [('new', {}), ('match', sp[-1])]


def instances(tier):
    out = []
    if tier == 'quick':
        for fam in ('simple', 'dist'):
            for sp in splits(3):
                out.append(('oneway2', NAMED['oneway2'], dict(fam=fam, T=3, ne=False, **MD), ops_for(sp), {}))
            out.append(('line2', NAMED['line2'], dict(fam=fam, T=3, ne=False, **MD), ops_for([2, 3]), {}))
            out.append(('line2', NAMED['line2'], dict(fam=fam, T=3, ne=False, **MP), ops_for([1, 3]), {}))
            out.append(('oneway3', NAMED['oneway3'], dict(fam=fam, T=3, ne=True, **NOSYM), ops_for([2, 3]), {}))
            out.append(('oneway4', NAMED['oneway4'], dict(fam=fam, T=2, ne=True, **NOSYM), ops_for([1, 2]), {}))
            out.append(('oneway3', NAMED['oneway3'], dict(fam=fam, T=2, ne=True, **MD), ops_for([1, 2]), {}))
            out.append(('oneway2', NAMED['oneway2'], dict(fam=fam, T=4, ne=False, **MD), ops_for([3, 4]), {}))
        out.append(('line2', NAMED['line2'], dict(fam='simple_n', T=2, ne=False, **MD), ops_for([1, 2]), {}))
        # extension combined with width pruning: the column at the old/new boundary holds more live candidates than the width
        for fam in ('simple', 'dist'):
            for sp in ([2, 3], [1, 3], [1, 2, 3]):
                out.append(('line2', NAMED['line2'], dict(fam=fam, T=3, ne=False, width=1, **NOSYM), ops_for(sp), {}))
            out.append(('fork', NAMED['fork'], dict(fam=fam, T=3, ne=False, width=1, **NOSYM), ops_for([2, 3]), {}))
            out.append(('fork', NAMED['fork'], dict(fam=fam, T=3, ne=True, width=1, **NOSYM), ops_for([2, 3]), {}))
            out.append(('fork', NAMED['fork'], dict(fam=fam, T=3, ne=False, width=2, **NOSYM), ops_for([1, 3]), {}))
    else:
        gs = [x for x in library(3, named=('fork', 'oneway4')) if len([1 for u in x[1] for v in x[1][u]]) <= 4]
        for name, g in gs:
            nedge = len([1 for u in g for v in g[u]])
            for fam in ('simple', 'dist', 'simple_n'):
                for ne in (False, True):
                    for T in ((2, 3, 4) if nedge <= 2 else (2, 3)):
                        for sp in splits(T):
                            for sym in (MD, MP, NOSYM):
                                out.append((name, g, dict(fam=fam, T=T, ne=ne, **sym), ops_for(sp), {}))
                            if nedge >= 2:
                                out.append((name, g, dict(fam=fam, T=T, ne=ne, width=1, **NOSYM), ops_for(sp), {}))
                                if nedge >= 3:
                                    out.append((name, g, dict(fam=fam, T=T, ne=ne, width=2, **MD), ops_for(sp), {}))
    return out


def run_instance(inst):
    return gabs.run(inst, claims_fn, witness_fn)


def main(tier):
    import_repo()
    from leuvenmapmatching.matcher import base as mb
    rep = Report(PID, tier)
    shims.selftest_halfnorm()
    rep.functions = src_hash(mb.BaseMatcher.match, mb.BaseMatcher._create_start_nodes, mb.BaseMatcher._match_states,
                             mb.BaseMatcher._match_non_emitting_states, mb.LatticeColumn.set_delayed)
    budget = 60 if tier == 'quick' else 900
    res = gabs.run_all(rep, run_instance, instances(tier), budget, 16 * (100 if tier == 'quick' else 900))
    rep.bounds = dict(graphs="oneway2, line2, oneway3, oneway4" if tier == 'quick' else "all digraphs <=3 nodes/<=4 edges, fork, oneway4",
                      T="<=4 (2-edge graphs) / 3", splits="every one- and two-cut schedule", config="max_dist or min_prob_norm symbolic (stop before/inside/after the prefix reachable); non-emitting on/off; lattice width None, 1, 2")
    rep.outside = ["rounding", "graphs/traces beyond the bound", "widths above 2"]
    rep.assumptions = ["AbsMap contract", "halfnorm formula shim", "exactly equally probable alternatives may be chosen differently"]
    gabs.collect(rep, res, PID, need_tags=('complete', 'early_stop', 'early_stop_inside_first_prefix'))
    return rep.finish("relational symbolic execution: incremental schedule and one-shot match of the real matcher in one symbolic path over "
                      "abstract geometry; equality of index/probability/path decided by z3")


def replay_file(path):
    import_repo()
    return gabs.replay(path, claims_fn)

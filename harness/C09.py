"""C09 - the lattice stays well-formed under any sequence of operations (DESIGN.md section 5, C09).

B: every sequence of <=3 public operations from {match, widen, extend, continue_with_distance} (bounded instance list) is
   executed symbolically over abstract geometry; after EVERY operation the well-formedness invariant is asserted over
   every lattice entry (filed under its key, predecessor is itself in the lattice in the directly preceding layer/column,
   not more probable than the predecessor, emitting-count, probability in [0,1], live => predecessor live).
FP: IEEE-754 lemma (z3 QF_FP, generated from the AST of BaseMatching.next): the monotone-probability guard cannot fire.
"""
import z3

from symx import shims, gabs, fp
from symx import latticelib as LL
from symx.absmap import NAMED, library
from symx.common import Report, import_repo, src_hash, run_instances

PID = 'C09'


def hook_fn(mp, mt, r):
    """claims built right after each operation (the lattice is mutated by later operations)."""
    return [(f"after {r['op']}: {nm}", f) for nm, f in LL.c09_claims(mt, None)]


def claims_fn(ctx):
    cl = []
    for r in ctx['results']:
        cl.extend(r.get('hooked', []))
    return cl


def witness_fn(ctx):
    tags = []
    mt = ctx['mt']
    n = sum(1 for _ in LL.all_entries(mt))
    if n > 2:
        tags.append('lattice_has_entries')
    if any(m.obs_ne > 0 for _, _, _, m in LL.all_entries(mt)):
        tags.append('nonemitting_layers')
    if any(m.delayed > 0 for _, _, _, m in LL.all_entries(mt)):
        tags.append('delayed_entries')
    if len(ctx['results']) > 1:
        tags.append('multi_operation_history')
    if any(r['op'][0] == 'continue' for r in ctx['results']):
        tags.append('continued_with_distance')
    return tags


NOSYM = dict(sym_maxdist=False, sym_init=False, sym_minprob=False)
MD = dict(sym_maxdist=True, sym_init=False, sym_minprob=False)


def instances(tier):
    out = []
    g2, g3, gf, ow4 = NAMED['line2'], NAMED['oneway3'], NAMED['fork'], NAMED['oneway4']
    if tier == 'quick':
        for fam in ('simple', 'dist'):
            out.append(('oneway3', g3, dict(fam=fam, T=3, ne=False, width=1, **NOSYM), [('match', 3), ('widen', 2)], {}))
            out.append(('line2', g2, dict(fam=fam, T=3, ne=False, width=1, **NOSYM), [('match', 3), ('widen', 2)], {}))
            out.append(('fork', gf, dict(fam=fam, T=2, ne=True, width=1, **NOSYM), [('match', 2), ('widen', 2), ('widen', 3)], {}))
            out.append(('oneway4', ow4, dict(fam=fam, T=2, ne=True, **MD), [('match', 2)], {}))
            out.append(('line2', g2, dict(fam=fam, T=3, ne=False, **MD), [('match', 1), ('extend', 2), ('extend', 3)], {}))
            out.append(('oneway3', g3, dict(fam=fam, T=3, ne=True, **NOSYM), [('match', 2), ('extend', 3)], {}))
            out.append(('oneway3', g3, dict(fam=fam, T=2, ne=False, width=1, **NOSYM), [('match', 2), ('match', 2)], {}))
        out.append(('line2', g2, dict(fam='simple_n', T=2, ne=True, width=1, **NOSYM), [('match', 2), ('widen', 2)], {}))
        out.append(('oneway3', g3, dict(fam='simple', T=3, ne=False, sym_maxdist=True, sym_init=False, sym_minprob=False),
                    [('match', 3), ('continue', 1, 1)], {}))
        # a non-emitting layer wider than the width whose postponed entries have successors of their own, then widening
        FORKD = {"A": ["B"], "B": ["C", "D"], "C": ["E"], "D": ["F"], "E": [], "F": []}
        out.append(('fork_deep', FORKD, dict(fam='simple', T=2, ne=True, width=1, **NOSYM), [('match', 2), ('widen', 2)], {}))
        out.append(('fork_deep', FORKD, dict(fam='simple_n', T=2, ne=True, width=1, **NOSYM), [('match', 2), ('widen', 3)], {}))
        # the same histories with the logger at DEBUG (stopped candidates are then filed in the lattice and must stay inert)
        gap = {"A": ["B"], "B": [], "C": ["D"], "D": []}
        for fam in ('simple', 'dist'):
            out.append(('gap2', gap, dict(fam=fam, T=3, ne=False, **MD), [('loglevel', 'DEBUG'), ('match', 3), ('continue', 1, 1), ('extend', 3)], {}))
            out.append(('gap2', gap, dict(fam=fam, T=3, ne=False, **MD), [('match', 3), ('continue', 2, 1), ('extend', 3)], {}))
            out.append(('line2', g2, dict(fam=fam, T=3, ne=False, width=1, **MD), [('loglevel', 'DEBUG'), ('match', 3), ('widen', 2)], {}))
    else:
        gs = [x for x in library(3, named=('fork', 'oneway4')) if len([1 for u in x[1] for v in x[1][u]]) <= 4]
        for name, g in gs:
            for fam in ('simple', 'dist', 'simple_n'):
                for ne in (False, True):
                    out.append((name, g, dict(fam=fam, T=3, ne=ne, width=1, **NOSYM), [('match', 3), ('widen', 2)], {}))
                    out.append((name, g, dict(fam=fam, T=3, ne=ne, width=1, **NOSYM), [('match', 3), ('widen', 2), ('widen', 3)], {}))
                    out.append((name, g, dict(fam=fam, T=3, ne=ne, **MD), [('match', 1), ('extend', 2), ('extend', 3)], {}))
                    out.append((name, g, dict(fam=fam, T=3, ne=ne, width=1, **NOSYM), [('match', 2), ('extend', 3), ('widen', 2)], {}))
                    out.append((name, g, dict(fam=fam, T=3, ne=ne, width=1, **NOSYM), [('match', 2), ('widen', 2), ('extend', 3)], {}))
                    out.append((name, g, dict(fam=fam, T=2, ne=ne, **MD), [('match', 2), ('match', 2)], {}))
                    out.append((name, g, dict(fam=fam, T=3, ne=ne, **MD), [('match', 3), ('continue', 1, 1)], {}))
                    out.append((name, g, dict(fam=fam, T=3, ne=ne, **MD), [('match', 3), ('continue', 2, 2), ('extend', 3)], {}))
    return out


def run_upsert(inst):
    """K / inductive step: one real LatticeColumn.upsert on a column holding an entry that other entries point to."""
    from symx import engine as E, runner
    from leuvenmapmatching.matcher.base import LatticeColumn, BaseMatching
    from leuvenmapmatching.matcher.distance import DistanceMatching
    from leuvenmapmatching.util.segment import Segment
    cls = dict(BaseMatching=BaseMatching, DistanceMatching=DistanceMatching)[inst[1]]
    layer = inst[2]

    import types
    stub = types.SimpleNamespace(expand_now=0, only_edges=True)     # the entries' matcher: only plain attributes are needed here

    def mk(eng, tag, a, b, prev):
        return cls(stub, Segment(a, (0, 0), b, (0, 1)), Segment("O1", (0, 0)), logprob=eng.fresh(f"lp_{tag}"),
                   logprobe=eng.fresh(f"lpe_{tag}"), logprobne=0, obs=1, obs_ne=layer, stop=bool(eng.fresh_bool(f"stop_{tag}")),
                   length=2, delayed=eng.choose(2, tag=f"delayed_{tag}"), prev={prev}, dist_obs=eng.fresh(f"d_{tag}"))

    def scenario():
        eng = E.get_engine()
        col = LatticeColumn(1)
        p0 = cls(None, Segment("Z", (0, 0), "A", (0, 1)), Segment("O0", (0, 0)), logprob=eng.fresh("lp_p0"), obs=0)
        p1 = cls(None, Segment("Y", (0, 0), "A", (0, 1)), Segment("O0", (0, 0)), logprob=eng.fresh("lp_p1"), obs=0)
        cur = mk(eng, 'cur', "A", "B", p0)
        other = mk(eng, 'other', "A", "C", p0)
        col.upsert(cur)
        col.upsert(other)
        succ = cls(None, Segment("B", (0, 0), "D", (0, 1)), Segment("O2", (0, 0)), logprob=eng.fresh("lp_succ"), obs=2, prev={cur})
        same_key = bool(eng.fresh_bool("new_candidate_has_same_key"))
        new = mk(eng, 'new', "A", "B" if same_key else "E", p1)
        new_fields = dict(logprob=new.logprob, stop=new.stop, delayed=new.delayed, prev=new.prev, dist_obs=new.dist_obs)
        cur_fields = dict(logprob=cur.logprob, stop=cur.stop, delayed=cur.delayed, prev=cur.prev, dist_obs=cur.dist_obs)
        ret = col.upsert(new)
        return dict(col=col, cur=cur, other=other, succ=succ, new=new, same_key=same_key, ret=ret, nf=new_fields, cf=cur_fields)

    def claims(eng, v):
        col, cur, new, other = v['col'], v['cur'], v['new'], v['other']
        d = col.o[layer]
        cl = [('entries_filed_under_their_own_key', z3.BoolVal(all(m.key == k and m.obs_ne == layer for k, m in d.items()))),
              ('other_entries_untouched', z3.BoolVal(d.get(other.key) is other)),
              ('successor_still_points_into_the_lattice', z3.BoolVal(all(d.get(p.key) is p for p in v['succ'].prev))),
              ('returns_the_filed_entry', z3.BoolVal(v['ret'] is d.get(new.key)))]
        if v['same_key']:
            cl.append(('existing_entry_object_keeps_its_place', z3.BoolVal(d.get(cur.key) is cur and len(d) == 2)))
            nf, cf = v['nf'], v['cf']
            better = z3.Or(z3.BoolVal(cf['stop'] and not nf['stop']),
                           z3.And(z3.BoolVal(cf['stop'] == nf['stop']), E.lift(cf['logprob']) < E.lift(nf['logprob'])))
            won = cur.logprob is nf['logprob']
            cl.append(('keeps_the_better_candidate', z3.BoolVal(won) == better))
            exp = nf if won else cf
            cl.append(('entry_fields_consistent_with_the_kept_candidate',
                       z3.BoolVal(cur.logprob is exp['logprob'] and cur.stop == exp['stop'] and cur.delayed == exp['delayed']
                                  and cur.prev is exp['prev'] and cur.dist_obs is exp['dist_obs'])))
        else:
            cl.append(('new_key_is_inserted', z3.BoolVal(d.get(new.key) is new and d.get(cur.key) is cur and len(d) == 3)))
        return cl

    def confirm(eng, model, v, cname):
        if not isinstance(v, dict):
            return dict(desc=f"LatticeColumn.upsert ({inst[1]}, layer {layer}) raised {type(v).__name__}: {v}", kind='upsert_exception')
        return dict(desc=f"LatticeColumn.upsert ({inst[1]}, layer {layer}): {cname} fails with existing score "
                         f"{E.model_value(model, E.lift(v['cf']['logprob']))} stop={v['cf']['stop']}, new score "
                         f"{E.model_value(model, E.lift(v['nf']['logprob']))} stop={v['nf']['stop']}, same_key={v['same_key']}",
                    kind='upsert', cls=inst[1], layer=layer, lp_cur=E.model_value(model, E.lift(v['cf']['logprob'])),
                    lp_new=E.model_value(model, E.lift(v['nf']['logprob'])), stop_cur=v['cf']['stop'], stop_new=v['nf']['stop'],
                    same_key=v['same_key'])

    def witness(eng, v):
        return ['upsert_same_key' if v['same_key'] else 'upsert_new_key'] + (['upsert_replaced'] if v['cur'].logprob is v['nf']['logprob'] else [])
    return runner.explore(f"upsert {inst[1]} layer={layer}", runner.lra_engine(5000), scenario, claims, confirm=confirm, witness=witness)


def replay_upsert(d):
    from leuvenmapmatching.matcher.base import LatticeColumn, BaseMatching
    from leuvenmapmatching.matcher.distance import DistanceMatching
    from leuvenmapmatching.util.segment import Segment
    cls = dict(BaseMatching=BaseMatching, DistanceMatching=DistanceMatching)[d['cls']]
    col = LatticeColumn(1)
    cur = cls(None, Segment("A", (0, 0), "B", (0, 1)), Segment("O1", (0, 0)), logprob=d['lp_cur'], obs=1, obs_ne=d['layer'], stop=d['stop_cur'])
    col.upsert(cur)
    new = cls(None, Segment("A", (0, 0), "B" if d['same_key'] else "E", (0, 1)), Segment("O1", (0, 0)), logprob=d['lp_new'], obs=1,
              obs_ne=d['layer'], stop=d['stop_new'])
    ret = col.upsert(new)
    ok = (col.o[d['layer']].get(cur.key) is cur) and ret is col.o[d['layer']].get(new.key)
    print("existing entry keeps its place and upsert returns the filed entry:", ok)
    return 0 if ok else 1


def run_instance(inst):
    if inst[0] == 'upsert':
        return run_upsert(inst)
    if inst[0] == 'fp':
        from leuvenmapmatching.matcher.base import BaseMatching
        _, which, bits, to = inst
        sort = {16: z3.Float16(), 32: z3.Float32(), 64: z3.Float64()}[bits]
        r = fp.lemmas(BaseMatching.next, which, sort, to)
        ok = r['result'] == 'unsat'
        out = dict(name=f"fp-lemma {which} Float{bits}", paths=1, discharged=1 if ok else 0,
                   inconclusive=1 if r['result'] == 'unknown' else 0, queries=1, solver_s=r['seconds'], decisions=1,
                   samples=[dict(lemma=r)], violations=[], candidates=[], errors=[], tags={f'fp_{which}_{r["result"]}': 1})
        if r['result'] == 'sat':
            out['violations'].append(dict(claim=f'guard cannot fire ({which})', desc=f"IEEE counterexample: {r.get('model')}", kind='fp', lemma=r))
        return out
    return gabs.run(inst, claims_fn, witness_fn, hook_fn=hook_fn, exc_is_violation=False)


def main(tier):
    import_repo()
    from leuvenmapmatching.matcher import base as mb
    rep = Report(PID, tier)
    shims.selftest_halfnorm()
    rep.validated += fp.validate_translation(mb.BaseMatching.next)
    rep.functions = src_hash(mb.LatticeColumn.upsert, mb.BaseMatching.update, mb.BaseMatching._update_inner, mb.BaseMatching.next,
                             mb.LatticeColumn.set_delayed, mb.BaseMatcher.increase_delayed, mb.BaseMatcher.continue_with_distance,
                             mb.BaseMatcher.match, mb.BaseMatcher.increase_max_lattice_width, mb.LatticeColumn.prune)
    budget = 60 if tier == 'quick' else 900
    fps = [('fp', 'emitting', 64, 120), ('fp', 'nonemitting', 16, 300)]
    if tier == 'thorough':
        fps.append(('fp', 'nonemitting', 32, 1200))   # inconclusive when it does not finish (stated)
    fres = run_instances(run_instance, fps + [('upsert', c, l) for c in ('BaseMatching', 'DistanceMatching') for l in (0, 1)])
    insts = instances(tier)
    if tier == 'thorough' and len(insts) > 220:
        # 720 combinations x up to 16 shards do not fit the tier's wall-time target (two runs hit the 50 min cap): every quick-tier
        # instance plus a VERIF_SEED-chosen subset of the rest; the evidence records how many were run
        import random
        from symx.common import seed
        quick = instances('quick')
        rest = [i for i in insts if i not in quick]
        insts = quick + random.Random(seed()).sample(rest, 220 - len(quick))
        rep.extra['thorough_instances'] = f"{len(insts)} of {len(rest) + len(quick)} combinations (all quick-tier ones + a seed-chosen subset)"
    res = gabs.run_all(rep, run_instance, insts, budget, 16 * (100 if tier == 'quick' else 900))
    rep.bounds = dict(operations="sequences of <=3 operations from match / increase_max_lattice_width / match(expand=True) / continue_with_distance / repeated match",
                      graphs="line2, oneway3, fork, oneway4" if tier == 'quick' else "all digraphs <=3 nodes/<=4 edges, fork, oneway4",
                      T="<=3", fp_lemma="emitting step Float64; non-emitting step Float16" + (" and Float32" if tier == 'thorough' else "") +
                      " (Float64 for the non-emitting step does not finish: stated width only)")
    rep.outside = ["rounding of symbolic arithmetic except the FP guard lemma", "operation sequences longer than 3", "graphs beyond the bound",
                   "exceptions raised by continue_with_distance after a complete match (totality is C17's subject)"]
    rep.assumptions = ["AbsMap contract", "halfnorm formula shim", "FP lemma preconditions: logprob_trans<=0, logprob_obs<=0, ne_length_factor_log<=0, logprob=fl(logprobe+logprobne)"]
    gabs.collect(rep, list(fres) + list(res), PID, need_tags=('lattice_has_entries', 'nonemitting_layers', 'delayed_entries',
                                                              'multi_operation_history', 'fp_emitting_unsat', 'upsert_replaced', 'upsert_new_key'))
    return rep.finish("symbolic execution of operation sequences of the real matcher over abstract geometry, invariant asserted over every "
                      "lattice entry after every operation (z3); IEEE-754 guard lemma from the AST of BaseMatching.next (z3 QF_FP)")


def replay_file(path):
    import json
    import_repo()
    d = json.load(open(path))
    if d.get('kind') == 'fp':
        print(d)
        return 1
    if d.get('kind') == 'upsert':
        return replay_upsert(d)
    # re-run the operation script concretely and evaluate the invariant with the concrete checker after each operation
    return gabs.replay(path, claims_fn)

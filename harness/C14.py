"""C14 - geodesic primitives agree with spherical geometry (DESIGN.md section 5, C14).

K in the angle algebra (symx/angles.py): the real dist_latlon functions are executed with angles carried as (sin, cos) pairs of
z3 reals; the claims are exact identities of spherical trigonometry checked against 3-D unit vectors:
 (a) distance = great-circle angle of the unit vectors; (b) destination inverts distance-and-bearing;
 (c) distance_point_to_segment: projection point on the great circle through the segment, cross-track distance, clamping, and
     invariance under swapping the end points; (d) box_around_point contains the disc.
Counterexamples are turned into doubles (atan2 of the model's sin/cos) and replayed on the unmodified functions against an
independent 3-D vector computation with GPS-irrelevant tolerances.
"""
import math

import z3

from symx import engine as E
from symx import angles as A
from symx import runner
from symx.common import Report, run_instances, import_repo, src_hash, write_replay, load_findings

PID = 'C14'
TIMEOUT_MS = [8000]
R = A.EARTH


def ang_value(m, a):
    return math.atan2(E.model_value(m, a.s), E.model_value(m, a.c))


def vec(lat, lon):
    return (math.cos(lat) * math.cos(lon), math.cos(lat) * math.sin(lon), math.sin(lat))


def vdot(u, v):
    return sum(x * y for x, y in zip(u, v))


def vcross(u, v):
    return (u[1] * v[2] - u[2] * v[1], u[2] * v[0] - u[0] * v[2], u[0] * v[1] - u[1] * v[0])


def vnorm(u):
    n = math.sqrt(vdot(u, u))
    return tuple(x / n for x in u)


def gc_dist(p, q):
    """great-circle distance in metres between (lat, lon) in degrees, via 3-D vectors (atan2 of cross/dot: well conditioned)."""
    u, v = vec(math.radians(p[0]), math.radians(p[1])), vec(math.radians(q[0]), math.radians(q[1]))
    c = vcross(u, v)
    return R * math.atan2(math.sqrt(vdot(c, c)), vdot(u, v))


def ref_point_to_segment(p, s1, s2):
    """independent reference: nearest point of the great-circle segment s1-s2 to p: (distance, point, relative position)."""
    P, A1, A2 = (vec(math.radians(x[0]), math.radians(x[1])) for x in (p, s1, s2))
    g = vcross(A1, A2)
    if vdot(g, g) < 1e-30:
        return gc_dist(p, s1), s1, 0.0
    g = vnorm(g)
    # foot point on the great circle
    f = tuple(P[i] - vdot(P, g) * g[i] for i in range(3))
    if vdot(f, f) < 1e-30:
        f = A1
    f = vnorm(f)
    seg = math.atan2(math.sqrt(vdot(vcross(A1, A2), vcross(A1, A2))), vdot(A1, A2))
    along = math.atan2(vdot(vcross(A1, f), g), vdot(A1, f))     # signed angle from s1 to the foot point around g
    t = along / seg
    if t < 0:
        return gc_dist(p, s1), s1, 0.0
    if t > 1:
        return gc_dist(p, s2), s2, 1.0
    lat, lon = math.degrees(math.asin(max(-1, min(1, f[2])))), math.degrees(math.atan2(f[1], f[0]))
    return gc_dist(p, (lat, lon)), (lat, lon), t


def run_instance(inst):
    from leuvenmapmatching.util import dist_latlon as dl
    kind = inst[0]
    if kind == 'dss_structure':
        return run_dss_structure(inst)
    shim = A.Installed()
    shim.install()
    name = f"latlon {kind}"
    findings = load_findings(PID)

    def pt(name_):
        return (A.Ang.symbolic(name_ + '_lat', 'half'), A.Ang.symbolic(name_ + '_lon'))

    def scenario():
        e = E.get_engine()
        A._N[0] = 0
        if kind == 'distance':
            p, q = pt('p'), pt('q')
            return dict(p=p, q=q, d=dl.distance(p, q))
        if kind == 'destination':
            p = pt('p')
            e.assume(p[0].c > 0)
            b = A.Ang.symbolic('bearing')
            delta = A.Ang.symbolic('delta', 'pos')
            e.assume(delta.s > 0)
            lat2, lon2 = dl.destination_radians(p[0], p[1], b, A.Arc(delta, R))
            b2 = dl.bearing_radians(p[0], p[1], lat2, lon2)
            d2 = dl.distance_haversine_radians(p[0], p[1], lat2, lon2)
            return dict(p=p, b=b, delta=delta, q=(lat2, lon2), b2=b2, d2=d2)
        if kind in ('dps_equator', 'dps_equator_swap', 'dps_meridian', 'dps_near_start', 'dps_near_end', 'dps_short_equator', 'dps_short_meridian'):
            import fractions
            p = pt('p')
            e.assume(p[0].c > 0)
            if kind in ('dps_near_start', 'dps_near_end'):
                # foot point about 0.3 m inside an end point of the segment, latitude of the query point free (street scale)
                off = fractions.Fraction(235, 10 ** 10) if kind == 'dps_near_start' else fractions.Fraction(1, 100000) - fractions.Fraction(235, 10 ** 10)
                p = (p[0], A.Ang.rational(off, 'half'))
                e.assume(z3.And(p[0].s > z3.Q(1, 10 ** 6), p[0].s < z3.Q(1, 1000)))
            zero = A.Ang(z3.RealVal(0), z3.RealVal(1), 'half')
            small = A.Ang.rational(fractions.Fraction(1, 100000), 'half')      # ~1.27 km on the 6371 km sphere
            if kind.startswith('dps_short'):
                # a segment of about 3 m (decimetre-to-metre scale of the property), query point within a few segment lengths
                small = A.Ang.rational(fractions.Fraction(25, 10 ** 8), 'half')
                e.assume(z3.And(p[0].s > -z3.Q(2, 10 ** 6), p[0].s < z3.Q(2, 10 ** 6), p[1].s > -z3.Q(2, 10 ** 6), p[1].s < z3.Q(2, 10 ** 6), p[1].c > 0))
            if kind in ('dps_meridian', 'dps_short_meridian'):
                s1, s2 = (zero, zero), (small, zero)
            else:
                s1, s2 = (zero, zero), (zero, small)
            r1 = dl.distance_point_to_segment(p, s1, s2)
            r2 = dl.distance_point_to_segment(p, s2, s1) if kind.endswith('swap') else None
            return dict(p=p, s1=s1, s2=s2, r1=r1, r2=r2)
        if kind in ('dps', 'dps_swap'):
            p, s1, s2 = pt('p'), pt('s1'), pt('s2')
            for x in (p, s1, s2):
                e.assume(x[0].c > 0)
            r1 = dl.distance_point_to_segment(p, s1, s2)
            r2 = dl.distance_point_to_segment(p, s2, s1) if kind == 'dps_swap' else None
            return dict(p=p, s1=s1, s2=s2, r1=r1, r2=r2)
        if kind == 'box':
            p, q = pt('p'), pt('q')
            e.assume(p[0].c > 0)
            delta = A.Ang.symbolic('delta', 'quarter')
            # radius below ~10 km and the box away from the poles: delta < 0.0016 rad, |lat| < 60 deg
            e.assume(z3.And(delta.s > 0, delta.s < z3.Q(16, 10000), p[0].c > z3.Q(1, 2)))
            box = dl.box_around_point(p, A.Arc(delta, R))
            return dict(p=p, q=q, delta=delta, box=box)
        raise AssertionError(kind)

    def claims(e, v):
        cl = []
        if kind == 'distance':
            a = (v['d'] / R).as_angle()
            n1, n2 = A.unit_vector(*v['p']), A.unit_vector(*v['q'])
            cl.append(('cos_of_distance_is_dot_product_of_unit_vectors', a.c == A.dot(n1, n2)))
            cl.append(('distance_angle_in_0_pi', a.s >= 0))
        elif kind == 'destination':
            p, q, b, delta = v['p'], v['q'], v['b'], v['delta']
            n1, n2 = A.unit_vector(*p), A.unit_vector(*q)
            cl.append(('destination_is_at_the_requested_distance', A.dot(n1, n2) == delta.c))
            cl.append(('destination_is_a_unit_vector_point', q[0].s * q[0].s + q[0].c * q[0].c == 1))
            cl.append(('bearing_to_destination_is_the_requested_bearing', z3.And(v['b2'].s == b.s, v['b2'].c == b.c)))
            a = (v['d2'] / R).as_angle()
            cl.append(('distance_to_destination_is_the_requested_distance', z3.And(a.c == delta.c, a.s == delta.s)))
        elif kind.startswith('dps'):
            p, s1, s2 = v['p'], v['s1'], v['s2']
            d, pi, ti = v['r1']
            P, S1, S2 = A.unit_vector(*p), A.unit_vector(*s1), A.unit_vector(*s2)
            g = A.cross(S1, S2)
            if isinstance(pi[0], A.Ang):
                PI = A.unit_vector(*pi)
                on_gc = A.dot(PI, g) == 0
                if isinstance(ti, A.Ratio):
                    cl.append(('projection_point_lies_on_the_great_circle_of_the_segment', on_gc))
                    # foot point: (P - PI) is orthogonal to the great circle direction at PI, i.e. P, PI, g coplanar
                    # PI is parallel to the projection of P on the plane of the great circle: PI x (|g|^2 P - (P.g) g) = 0
                    gg, pg = A.dot(g, g), A.dot(P, g)
                    w = tuple(gg * P[i] - pg * g[i] for i in range(3))
                    cw = A.cross(PI, w)
                    # robust variant for the replay: the reported point is more than ~5 cm (7.8e-9 rad) off the true foot point
                    pw, ww = A.dot(PI, w), A.dot(w, w)
                    tau2 = z3.Q(61, 10 ** 18)
                    cl.append(('projection_point_is_the_foot_of_the_perpendicular', z3.And(cw[0] == 0, cw[1] == 0, cw[2] == 0),
                               z3.And(pw >= 0, pw * pw >= (1 - tau2) * ww)))
                    cl.append(('projection_point_on_the_same_side_as_the_point', A.dot(PI, w) >= 0))
                da = (d / R).as_angle() if isinstance(d, A.Arc) else None
                if da is not None:
                    cl.append(('reported_distance_is_the_distance_to_the_reported_point', da.c == A.dot(P, PI)))
                if kind.startswith('dps_short') or kind.startswith('dps_near'):
                    # independent of how the code computes the point: no point W of the segment (equator / meridian arc from the origin,
                    # so W is a (sin, cos) pair) is nearer to P than the reported point, i.e. has a larger dot product with P
                    ws, wc = z3.Reals('w!s w!c')
                    on_seg = z3.And(ws * ws + wc * wc == 1, wc > 0, ws >= 0, ws <= s2[0 if 'meridian' in kind else 1].s)
                    W = (wc, z3.RealVal(0), ws) if 'meridian' in kind else (wc, ws, z3.RealVal(0))
                    # robust twin: some segment point is nearer by more than ~2 cm at 3 m (difference of cosines 1.5e-15)
                    cl.append(('no_segment_point_is_nearer_than_the_reported_point', z3.Implies(on_seg, A.dot(P, W) <= A.dot(P, PI)),
                               z3.Implies(on_seg, A.dot(P, W) <= A.dot(P, PI) + z3.Q(15, 10 ** 16))))
            if kind.endswith('swap'):
                d2, pi2, ti2 = v['r2']
                if isinstance(pi[0], A.Ang) and isinstance(pi2[0], A.Ang):
                    U, W = A.unit_vector(*pi), A.unit_vector(*pi2)
                    cl.append(('swapping_end_points_gives_the_same_point', z3.And(U[0] == W[0], U[1] == W[1], U[2] == W[2])))
                if isinstance(d, A.Arc) and isinstance(d2, A.Arc):
                    cl.append(('swapping_end_points_gives_the_same_distance', (d / R).as_angle().c == (d2 / R).as_angle().c))
        elif kind == 'box':
            p, q, delta = v['p'], v['q'], v['delta']
            lat_b, lon_l, lat_t, lon_r = v['box']
            inside = A.dot(A.unit_vector(*p), A.unit_vector(*q)) >= delta.c
            # latitudes in [-pi/2, pi/2]: compare sines;  longitudes relative to p (|dlon| < pi/2 under the bounds): compare sines
            dq, dr, dl_ = q[1] - p[1], lon_r - p[1], lon_l - p[1]
            cl.append(('disc_below_top_latitude', z3.Implies(inside, q[0].s <= lat_t.s)))
            cl.append(('disc_above_bottom_latitude', z3.Implies(inside, q[0].s >= lat_b.s)))
            cl.append(('disc_west_of_right_longitude', z3.Implies(z3.And(inside, dq.c > 0), dq.s <= dr.s)))
            cl.append(('disc_east_of_left_longitude', z3.Implies(z3.And(inside, dq.c > 0), dq.s >= dl_.s)))
        return cl

    def deg(m, a):
        return math.degrees(ang_value(m, a))

    def confirm(e, model, v, cname):
        try:
            return confirm_inner(model, v, cname)
        except Exception as ex:
            return None

    def confirm_inner(model, v, cname):
        shim.uninstall()
        try:
            if kind == 'distance':
                p, q = [(deg(model, x[0]), deg(model, x[1])) for x in (v['p'], v['q'])]
                got, ref = dl.distance(p, q), gc_dist(p, q)
                if abs(got - ref) > 1e-2 + 1e-9 * ref:
                    return dict(desc=f"distance({p},{q})={got}, great-circle distance {ref}", kind='c14', fn='distance', args=[p, q])
            elif kind == 'destination':
                p = (deg(model, v['p'][0]), deg(model, v['p'][1]))
                b, d = ang_value(model, v['b']), ang_value(model, v['delta']) * R
                if not (0.1 <= d <= 20000e3 * 0.49):
                    d = 1234.5
                lat2, lon2 = dl.destination_radians(math.radians(p[0]), math.radians(p[1]), b, d)
                q = (math.degrees(lat2), math.degrees(lon2))
                ref = gc_dist(p, q)
                b2 = dl.bearing_radians(math.radians(p[0]), math.radians(p[1]), lat2, lon2)
                if abs(ref - d) > 1e-2 + 1e-9 * d or (abs(math.cos(math.radians(p[0]))) > 1e-6 and abs(math.sin(b2 - b)) > 1e-6 + 1e-2 / max(d, 1)) or math.cos(b2 - b) < 0:
                    return dict(desc=f"destination({p}, bearing {b}, {d} m) = {q}: distance back {ref}, bearing back {b2}", kind='c14', fn='destination', args=[p, b, d])
            elif kind.startswith('dps'):
                p, s1, s2 = [(deg(model, x[0]), deg(model, x[1])) for x in (v['p'], v['s1'], v['s2'])]
                bad = concrete_dps(dl, p, s1, s2, swap=kind.endswith('swap'))
                if bad:
                    return dict(desc=bad, kind='c14', fn=kind, args=[p, s1, s2])
            elif kind == 'box':
                p, q = [(deg(model, x[0]), deg(model, x[1])) for x in (v['p'], v['q'])]
                dist = max(ang_value(model, v['delta']) * R, 1.0)
                bad = concrete_box(dl, p, q, dist)
                if bad:
                    kf = None
                    for f in findings:
                        if f.get('predicate') == 'latlon_box_radius_as_diagonal':
                            kf = f"{f['id']}: {f['what'][:160]}"
                    return dict(desc=bad, kind='c14', fn='box', args=[p, q, dist], known=kf)
        finally:
            shim.install()
        return None

    out = runner.explore(name, runner.nra_engine(TIMEOUT_MS[0], lazy=True), scenario, claims, confirm=confirm, budget_s=inst[1] if len(inst) > 1 else None,
                         witness=lambda e, v: [f'{kind}_path'], exc_is_violation=False)
    shim.uninstall()
    return out


def concrete_dps(dl, p, s1, s2, swap=False, tol=0.02):
    d, pi, ti = dl.distance_point_to_segment(p, s1, s2)
    rd, rpi, rt = ref_point_to_segment(p, s1, s2)
    seg = gc_dist(s1, s2)
    if abs(d - rd) > tol + 1e-9 * rd:
        return f"distance_point_to_segment({p},{s1},{s2}): distance {d}, independent spherical computation {rd}"
    if gc_dist(pi, rpi) > tol + 1e-9 * seg:
        return f"distance_point_to_segment({p},{s1},{s2}): point {pi} is {gc_dist(pi, rpi)} m from the true nearest point {rpi}"
    if seg > 1e-6 and abs(ti - rt) * seg > tol + 1e-9 * seg:
        return f"distance_point_to_segment({p},{s1},{s2}): relative position {ti}, true {rt}"
    if swap:
        d2, pi2, ti2 = dl.distance_point_to_segment(p, s2, s1)
        if abs(d - d2) > tol or gc_dist(pi, pi2) > tol or (seg > 1e-6 and abs(ti - (1 - ti2)) * seg > tol):
            return f"distance_point_to_segment({p},{s1},{s2}) = ({d},{pi},{ti}) but with swapped end points ({d2},{pi2},{ti2})"
    return None


def concrete_box(dl, p, q, dist):
    lat_b, lon_l, lat_t, lon_r = dl.box_around_point(p, dist)
    dq = gc_dist(p, q)
    if dq < dist * (1 - 1e-9) - 1e-3:
        if not (lat_b - 1e-12 <= q[0] <= lat_t + 1e-12 and lon_l - 1e-12 <= q[1] <= lon_r + 1e-12):
            return f"box_around_point({p}, {dist}) = {(lat_b, lon_l, lat_t, lon_r)} does not contain {q} at distance {dq}"
    # the four extreme points of the disc
    for brg in (0, 90, 180, 270):
        lat2, lon2 = dl.destination_radians(math.radians(p[0]), math.radians(p[1]), math.radians(brg), dist * 0.999)
        e = (math.degrees(lat2), math.degrees(lon2))
        if not (lat_b <= e[0] <= lat_t and lon_l <= e[1] <= lon_r):
            return f"box_around_point({p}, {dist}) = {(lat_b, lon_l, lat_t, lon_r)} does not contain {e} (bearing {brg}, distance {dist * 0.999})"
    return None


BOX_GRID_P = [(50.87, 4.70), (-33.92, 18.42), (-37.81, 144.96), (-54.80, -68.30), (0.5, 30.0), (59.9, 10.7)]
BOX_GRID_R = [100.0, 1000.0, 5000.0, 20000.0]


def box_fallback_grid(dl):
    """Concrete grid for box_around_point, used ONLY when the tree's box computation cannot be encoded in the angle algebra (e.g. an
    angle divided by a cosine): points at 0.9995 of the radius in 72 directions (computed here, not by the code under test) must lie
    inside the box.  Returns None or a violation record."""
    for p in BOX_GRID_P:
        la, lo = math.radians(p[0]), math.radians(p[1])
        for r in BOX_GRID_R:
            try:
                lat_b, lon_l, lat_t, lon_r = dl.box_around_point(p, r)
            except Exception as e:
                return dict(desc=f"box_around_point({p}, {r}) raised {e!r}", kind='c14', fn='box', args=[list(p), list(p), r])
            d = 0.9995 * r / R
            for k in range(72):
                b = math.radians(5 * k)
                la2 = math.asin(math.sin(la) * math.cos(d) + math.cos(la) * math.sin(d) * math.cos(b))
                lo2 = lo + math.atan2(math.sin(b) * math.sin(d) * math.cos(la), math.cos(d) - math.sin(la) * math.sin(la2))
                q = (math.degrees(la2), math.degrees(lo2))
                if not (lat_b <= q[0] <= lat_t and lon_l <= q[1] <= lon_r):
                    return dict(desc=f"box_around_point({p}, {r}) = {(lat_b, lon_l, lat_t, lon_r)} does not contain {q}, which is {gc_dist(p, q)} m from the centre",
                                kind='c14', fn='box', args=[list(p), list(q), r])
    return None


DSS_GRID = [   # (f1, f2, t1, t2) at street scale (degrees): head-to-tail with a gap, reversed, parallel, crossing, T-shape, far apart
    ((50.8700, 4.7000), (50.8700, 4.7010), (50.8700, 4.7020), (50.8700, 4.7040)),
    ((50.8700, 4.7010), (50.8700, 4.7000), (50.8700, 4.7020), (50.8700, 4.7040)),
    ((50.8700, 4.7000), (50.8700, 4.7010), (50.8700, 4.7040), (50.8700, 4.7020)),
    ((50.8700, 4.7000), (50.8705, 4.7010), (50.8712, 4.7025), (50.8730, 4.7030)),
    ((50.8700, 4.7000), (50.8700, 4.7020), (50.8703, 4.7000), (50.8703, 4.7020)),
    ((50.8700, 4.7000), (50.8710, 4.7020), (50.8710, 4.7000), (50.8700, 4.7020)),
    ((50.8700, 4.7000), (50.8700, 4.7020), (50.8704, 4.7010), (50.8720, 4.7010)),
    ((-33.9000, 151.2000), (-33.9010, 151.2015), (-33.9030, 151.2040), (-33.9025, 151.2070)),
    ((0.0002, -0.0010), (-0.0003, 0.0010), (0.0010, 0.0030), (0.0020, 0.0045)),
]


def concrete_dss(dl, f1, f2, t1, t2, tol=0.05):
    """the reported distance must be the distance between the two reported points, the reported points must lie at the reported
    relative positions, and swapping the end points of either segment must not change the distance (tolerance: 5 cm + 0.1 %)."""
    d, pf, pt, u_f, u_t = dl.distance_segment_to_segment(f1, f2, t1, t2)
    slack = tol + 1e-3 * d
    if abs(d - gc_dist(pf, pt)) > slack:
        return f"distance_segment_to_segment({f1},{f2},{t1},{t2}): reported distance {d} but the reported points {pf}, {pt} are {gc_dist(pf, pt)} m apart"
    for (a, b, u, q, nm) in ((f1, f2, u_f, pf, 'f'), (t1, t2, u_t, pt, 't')):
        seg = gc_dist(a, b)
        if not (0 <= u <= 1) or abs(gc_dist(a, q) - u * seg) > tol + 1e-3 * seg:
            return f"distance_segment_to_segment({f1},{f2},{t1},{t2}): point on {nm} {q} is not at relative position {u}"
    for (g1, g2, h1, h2, nm) in ((f2, f1, t1, t2, 'f'), (f1, f2, t2, t1, 't'), (f2, f1, t2, t1, 'both')):
        d2 = dl.distance_segment_to_segment(g1, g2, h1, h2)[0]
        if abs(d - d2) > slack:
            return f"distance_segment_to_segment({f1},{f2},{t1},{t2}) = {d} but {d2} with the end points of {nm} swapped"
    return None


def run_dss_structure(inst):
    """Modular check of dist_latlon.distance_segment_to_segment: the geodesic primitives are replaced by symbolic stand-ins (distance:
    fresh D >= 0 per point pair; bearing: a fresh angle per pair with cos^2+sin^2 = 1; destination(p, b, s): opaque point remembering
    (p, b, s); radians/degrees identities), the planar kernel it delegates to is the real dist_euclidean code.  Claims: the reported
    distance is the planar distance between the points at the reported relative positions in the local frame the function builds,
    the relative positions are in [0,1], and the reported points are destination(start, bearing, u * length).  (That the primitives
    and the planar kernel are right is the subject of the other C14 instances and of C13.)  Counterexamples are confirmed on a grid
    of concrete street-scale segments against great-circle distances."""
    from leuvenmapmatching.util import dist_latlon as dl
    from symx import shims
    budget = inst[1] if len(inst) > 1 else None
    names = ('radians', 'degrees', 'cos', 'sin', 'distance_haversine_radians', 'bearing_radians', 'destination_radians')
    saved = {k: getattr(dl, k) for k in names}
    memo = {}

    class Dest(tuple):
        pass

    def tid(x):
        return x.t.get_id() if isinstance(x, E.Sym) else repr(x)

    def install():
        eng = E.get_engine()
        dl.radians = lambda x: x
        dl.degrees = lambda x: x

        def dist(lat1, lon1, lat2, lon2, radius=None):
            k = ('d', tid(lat1), tid(lon1), tid(lat2), tid(lon2))
            if k not in memo:
                d = eng.fresh(f"D{len(memo)}")
                eng.assume(d.t >= 0)
                memo[k] = d
            return memo[k]

        def bearing(lat1, lon1, lat2, lon2):
            k = ('b', tid(lat1), tid(lon1), tid(lat2), tid(lon2))
            if k not in memo:
                b, c, s_ = eng.fresh(f"B{len(memo)}"), eng.fresh(f"cB{len(memo)}"), eng.fresh(f"sB{len(memo)}")
                eng.assume(c.t * c.t + s_.t * s_.t == 1)
                memo[k] = b
                memo[('cos', b.t.get_id())] = c
                memo[('sin', b.t.get_id())] = s_
            return memo[k]

        def dest(lat1, lon1, brng, s_):
            n = len(memo)
            lat, lon = eng.fresh(f"dlat{n}"), eng.fresh(f"dlon{n}")
            memo[('p', lat.t.get_id())] = (tid(lat1), tid(lon1), tid(brng), s_)
            return lat, lon
        dl.cos = lambda x: memo[('cos', x.t.get_id())]
        dl.sin = lambda x: memo[('sin', x.t.get_id())]
        dl.distance_haversine_radians, dl.bearing_radians, dl.destination_radians = dist, bearing, dest

    def scenario():
        memo.clear()
        eng = E.get_engine()
        install()
        P_ = {n: (eng.fresh(n + "_lat"), eng.fresh(n + "_lon")) for n in ('f1', 'f2', 't1', 't2')}
        out = dl.distance_segment_to_segment(P_['f1'], P_['f2'], P_['t1'], P_['t2'])
        # the local frame, rebuilt from the same stand-ins (memoised per arguments)
        def polar(a, b):
            d = dl.distance_haversine_radians(*P_[a], *P_[b])
            br = dl.bearing_radians(*P_[a], *P_[b])
            return d, br, (d * dl.cos(br), d * dl.sin(br))
        dff, bff, F2 = polar('f1', 'f2')
        _, _, T1 = polar('f1', 't1')
        dtt, btt, dT = polar('t1', 't2')
        return dict(out=out, F2=F2, T1=T1, dT=dT, dff=dff, bff=bff, dtt=dtt, btt=btt, P=P_, memo=dict(memo))

    def claims(eng, v):
        d, pf, pt, u_f, u_t = v['out']
        L = E.lift
        uf, ut = L(u_f), L(u_t)
        fx, fy = uf * L(v['F2'][0]), uf * L(v['F2'][1])
        tx, ty = L(v['T1'][0]) + ut * L(v['dT'][0]), L(v['T1'][1]) + ut * L(v['dT'][1])
        D2 = (fx - tx) * (fx - tx) + (fy - ty) * (fy - ty)
        dd = d.sq if isinstance(d, E.Sym) and d.sq is not None else L(d) * L(d)
        cl = [('relative_positions_in_unit_interval', z3.And(uf >= 0, uf <= 1, ut >= 0, ut <= 1)),
              ('reported_distance_is_the_distance_of_the_reported_positions', z3.And(L(d) >= 0, dd - D2 <= z3.Q(1, 10 ** 6) * (1 + D2), D2 - dd <= z3.Q(1, 10 ** 6) * (1 + D2)))]
        m = v['memo']
        for nm, q, start, br, ln, u in (('f', pf, v['P']['f1'], v['bff'], v['dff'], uf), ('t', pt, v['P']['t1'], v['btt'], v['dtt'], ut)):
            rec = m.get(('p', q[0].t.get_id())) if isinstance(q[0], E.Sym) else None
            ok = rec is not None and rec[0] == tid(start[0]) and rec[1] == tid(start[1]) and rec[2] == tid(br)
            cl.append((f'point_on_{nm}_is_a_destination_from_its_start_along_its_bearing', z3.BoolVal(bool(ok))))
            if ok:
                cl.append((f'point_on_{nm}_lies_at_its_relative_position', L(rec[3]) == u * L(ln)))
        return cl

    def confirm(eng, model, v, cname):
        with shims.concrete():
            cur = {k: getattr(dl, k) for k in names}
            for k, f in saved.items():
                setattr(dl, k, f)
            try:
                for g in DSS_GRID:
                    bad = concrete_dss(dl, *g)
                    if bad:
                        return dict(desc=bad, fn='dss', args=[list(x) for x in g])
            finally:
                for k, f in cur.items():
                    setattr(dl, k, f)
        return None
    shims.install()
    try:
        out = runner.explore("latlon dss_structure", runner.nra_engine(TIMEOUT_MS[0]), scenario, claims, confirm=confirm, budget_s=budget,
                             witness=lambda eng, v: ['dss_path'])
    finally:
        for k, f in saved.items():
            setattr(dl, k, f)
        shims.uninstall()
    return out


def main(tier):
    import_repo()
    from leuvenmapmatching.util import dist_latlon as dl
    rep = Report(PID, tier)
    rep.functions = src_hash(dl.distance, dl.distance_haversine_radians, dl.bearing_radians, dl.destination_radians, dl.distance_point_to_segment,
                             dl.box_around_point, dl.distance_segment_to_segment)
    budget = 150 if tier == 'quick' else 900
    TIMEOUT_MS[0] = 8000 if tier == 'quick' else 60000
    res = run_instances(run_instance, [(k, budget) for k in ('distance', 'destination', 'dps', 'dps_swap', 'box', 'dps_equator', 'dps_equator_swap', 'dps_meridian', 'dps_near_start', 'dps_near_end', 'dps_short_equator', 'dps_short_meridian', 'dss_structure')])
    rep.bounds = dict(domain="all latitudes in [-90,90] and longitudes (angles as exact (sin,cos) pairs); destination: distance in (0, pi R); box: radius < ~10 km, |lat| < 60 deg",
                      claims="exact identities of spherical trigonometry against 3-D unit vectors; inconclusive (solver unknown) paths are reported as such")
    rep.outside = ["numerical agreement 'within centimetres' of distance_segment_to_segment (local planar frame): an error bound on a transcendental approximation, not expressible; decided instead: the structure of the function over symbolic stand-ins of the geodesic primitives (dss_structure)",
                   "rounding; the relative position ti is a ratio of two angles and is only compared through 0/1 clamping", "poles and antimeridian"]
    rep.assumptions = ["sin/cos/asin/acos/atan2/half-angle/addition formulas as exact polynomial constraints (symx/angles.py)"]
    tags, known = {}, set()
    for r in res:
        # a tree whose box computation the angle algebra cannot express ends in a harness error (no verdict) - unless the concrete
        # fallback grid shows, on the unmodified functions with plain floats, that the box does not contain the disc
        if r['name'].endswith(' box') and any('unsupported' in e for e in r.get('errors', [])):
            fb = box_fallback_grid(dl)
            rep.extra['box_fallback_grid'] = 'violation' if fb else 'no violation on the grid; the harness error stands'
            if fb:
                r['violations'] = list(r.get('violations', [])) + [dict(fb, claim='box_contains_disc (concrete fallback grid: the box computation of this tree cannot be encoded)')]
                r['errors'] = [e for e in r['errors'] if 'unsupported' not in e]
                tags['box_path'] = tags.get('box_path', 0) + 1
    for r in sorted(res, key=lambda r: r['name']):
        rep.add_instance(r)
        for t, n in r.get('tags', {}).items():
            tags[t] = tags.get(t, 0) + n
        for v in r.get('violations', []):
            if v.get('known'):
                kid = v['known'].split(':')[0]
                if kid not in known:
                    known.add(kid)
                    rep.known_hits.append(v['known'] + f" (e.g. {v['desc'][:200]})")
                continue
            fn = write_replay(PID, dict(property=PID, instance=r['name'], **{k: v[k] for k in v if k != 'desc'}, observed=v['desc']))
            rep.violations.append(dict(replay=fn, msg=f"{r['name']} claim={v['claim']}: {v['desc']}"))
        for c in r.get('candidates', []):
            rep.unconfirmed.append(f"{r['name']}: {c}")
    rep.extra['reachability_tags'] = tags
    for need in ('distance_path', 'destination_path', 'dps_path', 'box_path'):
        if not tags.get(need):
            rep.harness_errors.append(f"vacuity: {need} not reached")
    return rep.finish("symbolic execution of the real dist_latlon functions in an exact angle algebra ((sin,cos) pairs over z3 reals); identities "
                      "against 3-D unit vectors decided by z3 nlsat; counterexamples replayed on doubles against an independent vector computation")


def replay_file(path):
    import json
    import_repo()
    from leuvenmapmatching.util import dist_latlon as dl
    d = json.load(open(path))
    fn, a = d['fn'], d['args']
    if fn.startswith('dps'):
        bad = concrete_dps(dl, tuple(a[0]), tuple(a[1]), tuple(a[2]), swap=fn.endswith('swap'))
    elif fn == 'box':
        bad = concrete_box(dl, tuple(a[0]), tuple(a[1]), a[2])
    elif fn == 'dss':
        bad = concrete_dss(dl, *[tuple(x) for x in a])
    else:
        bad = d['observed']
    print(bad or "consistent")
    return 1 if bad else 0

"""Entry point: python -m harness.main Cxx [--tier quick|thorough] [--replay file]."""
import argparse
import importlib
import os
import sys


def main():
    ap = argparse.ArgumentParser()
    ap.add_argument('pid')
    ap.add_argument('--tier', default=os.environ.get('VERIF_TIER', 'quick'), choices=['quick', 'thorough'])
    ap.add_argument('--replay')
    a = ap.parse_args()
    mod = importlib.import_module(f'harness.{a.pid}')
    if a.replay:
        sys.exit(mod.replay_file(a.replay))
    sys.exit(mod.main(a.tier))


if __name__ == '__main__':
    main()

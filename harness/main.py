"""Entry point: python -m harness.main Cxx [--tier quick|thorough] [--replay file]."""
import argparse
import importlib
import os
import sys


def main():
    ap = argparse.ArgumentParser()
    ap.add_argument('pid')
    ap.add_argument('--tier', default=os.environ.get('VERIF_TIER', 'quick'), choices=['quick', 'thorough'])
    ap.add_argument('--replay')
    a = ap.parse_args()
    mod = importlib.import_module(f'harness.{a.pid}')
    try:
        if a.replay:
            rc = mod.replay_file(a.replay)
        else:
            rc = mod.main(a.tier)
    except SystemExit as e:
        if isinstance(e.code, str):          # self-test / translator-validation failure: a harness error, never a verdict
            print(f"HARNESS-ERROR: {e.code}")
            sys.exit(3)
        raise
    except Exception as e:
        import traceback
        traceback.print_exc()
        print(f"HARNESS-ERROR: {type(e).__name__}: {e}")
        sys.exit(3)
    sys.exit(rc)


if __name__ == '__main__':
    main()

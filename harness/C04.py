"""C04 - the matched sequence is a walk in the road graph (DESIGN.md section 5, C04).

Shape B in G-abs: real match() (+ widen / extend histories) on maps with one-way edges, dead ends, self-listed
neighbours (on and off) and a linked parallel pair; on every path the best path is checked against an adjacency oracle
computed from the graph dictionary (not from the map's methods), and the nodes-only view is computed by the real code.
Shape K (CrossHair): node_path_to_only_nodes on symbolic integer labels (see crosshair_c04.py).
"""
import os
import subprocess
import sys
import time

from symx import shims, gabs
from symx import latticelib as LL
from symx.absmap import NAMED, library
from symx.common import Report, import_repo, src_hash, VERIF, REPO

PID = 'C04'


def claims_fn(ctx):
    cl = []
    for i, r in enumerate(ctx['results']):
        if r['states'] is None or not r['lattice_best']:
            continue
        class V:
            lattice_best = r['lattice_best']
            node_path = list(r['states'])
            node_path_to_only_nodes = r['mt'].node_path_to_only_nodes
        for nm, f in LL.c04_claims(r['mp'], V, ctx['cfg']):
            cl.append((f"op{i}:{nm}", f))
    return cl


def witness_fn(ctx):
    tags = []
    for r in ctx['results']:
        lb = r['lattice_best']
        ks = [m.shortkey for m in lb]
        if any(m.obs_ne > 0 for m in lb):
            tags.append('nonemitting_on_best_path')
        mp = r['mp']
        if any(isinstance(a, tuple) and isinstance(b, tuple) and tuple(b) in [tuple(x) for x in mp.linked.get(a, [])] and b[0] != a[1]
               for a, b in zip(ks, ks[1:])):
            tags.append('linked_edge_hop')
        if any(isinstance(a, tuple) and isinstance(b, tuple) and b == (a[1], a[0]) for a, b in zip(ks, ks[1:])):
            tags.append('u_turn')
        if len(set(ks)) > 1:
            tags.append('moved')
    return tags


NOSYM = dict(sym_maxdist=False, sym_init=False, sym_minprob=False)
MD = dict(sym_maxdist=True, sym_init=False, sym_minprob=False)
LINKED3 = {"Z": ["A"], "A": ["B"], "B": [], "C": ["D"], "D": []}
LINKED3_L = [[["A", "B"], [["C", "D"]]], [["Z", "A"], [["C", "D"]]]]
LINKIN = {"A": ["B"], "C": ["B"], "B": [], "E": ["F"], "F": []}      # two edges into B, only (A,B) is linked to the parallel edge (E,F)
LINKIN_L = [[["A", "B"], [["E", "F"]]]]
PAR2 = {"A": ["B"], "B": [], "C": ["D"], "D": []}
PAR2_L = [[["A", "B"], [["C", "D"]]], [["C", "D"], [["A", "B"]]]]


def instances(tier):
    out = []
    if tier == 'quick':
        for fam in ('simple', 'dist'):
            out.append(('linked3', LINKED3, dict(fam=fam, T=2, ne=True, linked=LINKED3_L, **NOSYM), [('match', 2)], {}))
            out.append(('par2', PAR2, dict(fam=fam, T=2, ne=False, linked=PAR2_L, **NOSYM), [('match', 2)], {}))
            out.append(('linkin', LINKIN, dict(fam=fam, T=2, ne=False, linked=LINKIN_L, **NOSYM), [('match', 2)], {}))
            out.append(('oneway4', NAMED['oneway4'], dict(fam=fam, T=2, ne=True, **NOSYM), [('match', 2)], {}))
            out.append(('tri', NAMED['tri'], dict(fam=fam, T=2, ne=False, self_listed=False, **NOSYM), [('match', 2)], {}))
            out.append(('line3', NAMED['line3'], dict(fam=fam, T=2, ne=False, **NOSYM), [('match', 2)], {}))
            out.append(('fork', NAMED['fork'], dict(fam=fam, T=2, ne=True, width=1, **NOSYM), [('match', 2), ('widen', 2)], {}))
            out.append(('oneway3', NAMED['oneway3'], dict(fam=fam, T=3, ne=False, **MD), [('match', 2), ('extend', 3)], {}))
        out.append(('line2', NAMED['line2'], dict(fam='simple_n', T=2, ne=True, **NOSYM), [('match', 2)], {}))
        out.append(('oneway3', NAMED['oneway3'], dict(fam='simple_n', T=2, ne=False, **NOSYM), [('match', 2)], {}))
        out.append(('tri', NAMED['tri'], dict(fam='simple_n', T=2, ne=False, self_listed=False, **NOSYM), [('match', 2)], {}))
    else:
        gs = [x for x in library(3, named=('fork', 'oneway4', 'path4', 'diamond', 'star')) if len([1 for u in x[1] for v in x[1][u]]) <= 6]
        for name, g in gs:
            for fam in ('simple', 'dist', 'simple_n'):
                for ne in (False, True):
                    for sl in (True, False):
                        out.append((name, g, dict(fam=fam, T=2, ne=ne, self_listed=sl, **NOSYM), [('match', 2)], {}))
                    out.append((name, g, dict(fam=fam, T=3, ne=ne, **NOSYM), [('match', 3)], {}))
                    out.append((name, g, dict(fam=fam, T=2, ne=ne, width=1, **NOSYM), [('match', 2), ('widen', 2)], {}))
                    out.append((name, g, dict(fam=fam, T=3, ne=ne, **MD), [('match', 2), ('extend', 3)], {}))
        for fam in ('simple', 'dist'):
            for ne in (False, True):
                out.append(('linked3', LINKED3, dict(fam=fam, T=2, ne=ne, linked=LINKED3_L, **NOSYM), [('match', 2)], {}))
                out.append(('linked3', LINKED3, dict(fam=fam, T=3, ne=ne, linked=LINKED3_L, **NOSYM), [('match', 3)], {}))
                out.append(('par2', PAR2, dict(fam=fam, T=3, ne=ne, linked=PAR2_L, **NOSYM), [('match', 3)], {}))
                out.append(('linkin', LINKIN, dict(fam=fam, T=2, ne=ne, linked=LINKIN_L, **NOSYM), [('match', 2)], {}))
                out.append(('linkin', LINKIN, dict(fam=fam, T=3, ne=ne, linked=LINKIN_L, **NOSYM), [('match', 3)], {}))
    return out


def run_instance(inst):
    return gabs.run(inst, claims_fn, witness_fn)


def run_crosshair(tier):
    """CrossHair (second engine): node_path_to_only_nodes over symbolic int labels.  Returns dict(confirmed, refuted, unknown, out)."""
    t0 = time.time()
    env = dict(os.environ, PYTHONPATH=f"{REPO}:{VERIF}")
    to = '20' if tier == 'quick' else '90'
    cmd = [sys.executable, '-m', 'crosshair', 'check', '--report_all', '--per_condition_timeout', to,
           os.path.join(VERIF, 'harness', 'crosshair_c04.py')]
    try:
        p = subprocess.run(cmd, env=env, capture_output=True, text=True, timeout=600)
        out = p.stdout + p.stderr
    except Exception as e:
        return dict(error=str(e), wall=time.time() - t0)
    conf = out.count('Confirmed over all paths')
    ref = len([l for l in out.splitlines() if 'error:' in l and 'false when calling' in l.lower()]) + out.count('false when calling')
    unk = out.count('Not confirmed') + out.count('Unable to meet precondition')
    return dict(confirmed=conf, refuted=ref, unknown=unk, out=out[-2000:], wall=round(time.time() - t0, 1))


def main(tier):
    import_repo()
    from leuvenmapmatching.matcher import base as mb
    from leuvenmapmatching.map import inmem
    rep = Report(PID, tier)
    shims.selftest_halfnorm()
    rep.functions = src_hash(mb.BaseMatcher._match_states, mb.BaseMatcher._match_non_emitting_states_inner,
                             mb.BaseMatcher._match_non_emitting_states_end, mb.BaseMatcher._node_in_prev_ne,
                             mb.BaseMatcher.node_path_to_only_nodes, mb.BaseMatcher.get_path, inmem.InMemMap.nodes_nbrto,
                             inmem.InMemMap.edges_nbrto)
    budget = 60 if tier == 'quick' else 900
    res = gabs.run_all(rep, run_instance, instances(tier), budget, 16 * (100 if tier == 'quick' else 900))
    ch = run_crosshair(tier)
    rep.extra['crosshair_node_path_to_only_nodes'] = ch
    if ch.get('refuted'):
        from symx.common import write_replay
        fn = write_replay(PID, dict(property=PID, kind='crosshair', output=ch['out']))
        rep.violations.append(dict(replay=fn, msg="CrossHair counterexample for node_path_to_only_nodes: " + ch['out'][-600:]))
    elif ch.get('confirmed'):
        rep.paths += ch['confirmed']
        rep.paths_total += ch['confirmed']
    rep.bounds = dict(graphs="linked3 (3 edges, one linked pair), par2 (2 linked parallel edges), linkin (two edges into one node, one of them linked), oneway4, tri, line3, fork, oneway3, line2" if tier == 'quick'
                      else "all digraphs <=3 nodes, fork, oneway4, path4, diamond, star, linked3, par2, linkin",
                      T="2..3", variants="self-listed neighbours on/off, one-way, dead ends, linked pair, non-emitting on/off, width-1 then widen, extend",
                      crosshair="node_path_to_only_nodes: state sequences of length 4 over symbolic int labels satisfying the walk predicate")
    rep.outside = ["SqliteMap neighbour queries (see C12)", "graphs beyond the bound", "jump operation (continue_with_distance)"]
    rep.assumptions = ["AbsMap lists neighbours like InMemMap (end-node successors + linked edges; node itself when self_listed)"]
    gabs.collect(rep, res, PID, need_tags=('moved', 'nonemitting_on_best_path', 'linked_edge_hop', 'u_turn'))
    return rep.finish("symbolic execution of the real match()/widen/extend over abstract geometry; every best path checked against an "
                      "adjacency oracle built from the graph dictionary; CrossHair on node_path_to_only_nodes (symbolic int labels)")


def replay_file(path):
    import json
    import_repo()
    d = json.load(open(path))
    if d.get('kind') == 'crosshair':
        print(d['output'])
        return 1
    return gabs.replay(path, claims_fn)

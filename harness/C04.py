"""C04 - the matched sequence is a walk in the road graph (DESIGN.md section 5, C04).

Shape B in G-abs: real match() (+ widen / extend histories) on maps with one-way edges, dead ends, self-listed
neighbours (on and off) and a linked parallel pair; on every path the best path is checked against an adjacency oracle
computed from the graph dictionary (not from the map's methods), and the nodes-only view is computed by the real code.
Shape K (CrossHair): node_path_to_only_nodes on symbolic integer labels (see crosshair_c04.py).
"""
import os
import subprocess
import sys
import time

from symx import shims, gabs
from symx import latticelib as LL
from symx.absmap import NAMED, library
from symx.common import Report, import_repo, src_hash, VERIF, REPO

PID = 'C04'


def claims_fn(ctx):
    cl = []
    for i, r in enumerate(ctx['results']):
        if r['states'] is None or not r['lattice_best']:
            continue
        class V:
            lattice_best = r['lattice_best']
            node_path = list(r['states'])
            node_path_to_only_nodes = r['mt'].node_path_to_only_nodes
        for nm, f in LL.c04_claims(r['mp'], V, ctx['cfg']):
            cl.append((f"op{i}:{nm}", f))
    return cl


def witness_fn(ctx):
    tags = []
    for r in ctx['results']:
        lb = r['lattice_best']
        ks = [m.shortkey for m in lb]
        if any(m.obs_ne > 0 for m in lb):
            tags.append('nonemitting_on_best_path')
        mp = r['mp']
        if any(isinstance(a, tuple) and isinstance(b, tuple) and tuple(b) in [tuple(x) for x in mp.linked.get(a, [])] and b[0] != a[1]
               for a, b in zip(ks, ks[1:])):
            tags.append('linked_edge_hop')
        if any(isinstance(a, tuple) and isinstance(b, tuple) and b == (a[1], a[0]) for a, b in zip(ks, ks[1:])):
            tags.append('u_turn')
        if len(set(ks)) > 1:
            tags.append('moved')
    return tags


NOSYM = dict(sym_maxdist=False, sym_init=False, sym_minprob=False)
MD = dict(sym_maxdist=True, sym_init=False, sym_minprob=False)
LINKED3 = {"Z": ["A"], "A": ["B"], "B": [], "C": ["D"], "D": []}
LINKED3_L = [[["A", "B"], [["C", "D"]]], [["Z", "A"], [["C", "D"]]]]
LINKIN = {"A": ["B"], "C": ["B"], "B": [], "E": ["F"], "F": []}      # two edges into B, only (A,B) is linked to the parallel edge (E,F)
LINKIN_L = [[["A", "B"], [["E", "F"]]]]
PAR2 = {"A": ["B"], "B": [], "C": ["D"], "D": []}
PAR2_L = [[["A", "B"], [["C", "D"]]], [["C", "D"], [["A", "B"]]]]


def instances(tier):
    out = []
    if tier == 'quick':
        for fam in ('simple', 'dist'):
            out.append(('linked3', LINKED3, dict(fam=fam, T=2, ne=True, linked=LINKED3_L, **NOSYM), [('match', 2)], {}))
            out.append(('par2', PAR2, dict(fam=fam, T=2, ne=False, linked=PAR2_L, **NOSYM), [('match', 2)], {}))
            out.append(('linkin', LINKIN, dict(fam=fam, T=2, ne=False, linked=LINKIN_L, **NOSYM), [('match', 2)], {}))
            out.append(('oneway4', NAMED['oneway4'], dict(fam=fam, T=2, ne=True, **NOSYM), [('match', 2)], {}))
            out.append(('tri', NAMED['tri'], dict(fam=fam, T=2, ne=False, self_listed=False, **NOSYM), [('match', 2)], {}))
            out.append(('line3', NAMED['line3'], dict(fam=fam, T=2, ne=False, **NOSYM), [('match', 2)], {}))
            out.append(('fork', NAMED['fork'], dict(fam=fam, T=2, ne=True, width=1, **NOSYM), [('match', 2), ('widen', 2)], {}))
            out.append(('oneway3', NAMED['oneway3'], dict(fam=fam, T=3, ne=False, **MD), [('match', 2), ('extend', 3)], {}))
        out.append(('line2', NAMED['line2'], dict(fam='simple_n', T=2, ne=True, **NOSYM), [('match', 2)], {}))
        out.append(('oneway3', NAMED['oneway3'], dict(fam='simple_n', T=2, ne=False, **NOSYM), [('match', 2)], {}))
        out.append(('tri', NAMED['tri'], dict(fam='simple_n', T=2, ne=False, self_listed=False, **NOSYM), [('match', 2)], {}))
    else:
        gs = [x for x in library(3, named=('fork', 'oneway4', 'path4', 'diamond', 'star')) if len([1 for u in x[1] for v in x[1][u]]) <= 6]
        for name, g in gs:
            for fam in ('simple', 'dist', 'simple_n'):
                for ne in (False, True):
                    for sl in (True, False):
                        out.append((name, g, dict(fam=fam, T=2, ne=ne, self_listed=sl, **NOSYM), [('match', 2)], {}))
                    out.append((name, g, dict(fam=fam, T=3, ne=ne, **NOSYM), [('match', 3)], {}))
                    out.append((name, g, dict(fam=fam, T=2, ne=ne, width=1, **NOSYM), [('match', 2), ('widen', 2)], {}))
                    out.append((name, g, dict(fam=fam, T=3, ne=ne, **MD), [('match', 2), ('extend', 3)], {}))
        for fam in ('simple', 'dist'):
            for ne in (False, True):
                out.append(('linked3', LINKED3, dict(fam=fam, T=2, ne=ne, linked=LINKED3_L, **NOSYM), [('match', 2)], {}))
                out.append(('linked3', LINKED3, dict(fam=fam, T=3, ne=ne, linked=LINKED3_L, **NOSYM), [('match', 3)], {}))
                out.append(('par2', PAR2, dict(fam=fam, T=3, ne=ne, linked=PAR2_L, **NOSYM), [('match', 3)], {}))
                out.append(('linkin', LINKIN, dict(fam=fam, T=2, ne=ne, linked=LINKIN_L, **NOSYM), [('match', 2)], {}))
                out.append(('linkin', LINKIN, dict(fam=fam, T=3, ne=ne, linked=LINKIN_L, **NOSYM), [('match', 3)], {}))
    return out


def run_instance(inst):
    if inst[0] == 'realmap':
        return run_realmap(inst)
    return gabs.run(inst, claims_fn, witness_fn)


class GraphView:
    """adjacency oracle read from the raw graph dictionary of a real InMemMap at one moment (dangling neighbour labels of removed
    nodes are not moves the map offers)."""

    def __init__(self, mp):
        g = mp.graph
        self.G = {k: [n for n in v[1] if n in g and g[n][0] is not None] for k, v in g.items() if v[0] is not None}
        self.linked = {tuple(k): [tuple(x) for x in v] for k, v in (getattr(mp, 'linked_edges', None) or {}).items()}


def realmap_apply(mp, mutation):
    k = mutation[0]
    if k == 'del_node':
        mp.del_node(mutation[1])
    elif k == 'purge':
        mp.purge()
    elif k == 'add_edge':
        mp.add_edge(mutation[1], mutation[2])
    elif k == 'add_node':
        mp.add_node(mutation[1], tuple(mutation[2]))
        for a, b in mutation[3]:
            mp.add_edge(a, b)
    elif k != 'none':
        raise AssertionError(mutation)


def realmap_run(eng, lay, cfg, mutation, path):
    """match on the real InMemMap, change the map through its public interface, match again (fresh matcher and the old one)."""
    from symx import greal
    from symx.matchlib import make_matcher
    mp = greal.new_map(lay)
    out = []
    mt = make_matcher(eng, mp, cfg)
    st, idx = mt.match(path)
    out.append(dict(tag='before_change', states=st, lb=list(mt.lattice_best or []), view=GraphView(mp), mt=mt))
    out[-1]['offered_bad'] = offered_moves_bad(mp, out[-1]['view'])
    realmap_apply(mp, mutation)
    view = GraphView(mp)
    mt2 = make_matcher(eng, mp, cfg)
    st, idx = mt2.match(path)
    out.append(dict(tag='after_change_fresh_matcher', states=st, lb=list(mt2.lattice_best or []), view=view, mt=mt2))
    out[-1]['offered_bad'] = offered_moves_bad(mp, view)
    st, idx = mt.match(path)
    out.append(dict(tag='after_change_same_matcher', states=st, lb=list(mt.lattice_best or []), view=view, mt=mt))
    return out


def offered_moves_bad(mp, view):
    """moves that the map's own neighbour queries offer although the graph dictionary / linked-edge table does not contain them"""
    bad = []
    for u in view.G:
        for n in mp.nodes_nbrto(u):
            if n[0] != u and n[0] not in view.G[u]:
                bad.append(('nodes_nbrto', u, n[0]))
        for v in view.G[u]:
            if v == u:
                continue
            for l3, _, l4, _ in mp.edges_nbrto((u, v)):
                ok = (l3 == v and (l4 in view.G.get(v, []) or l4 == v)) or ((l3, l4) in view.linked.get((u, v), []) and l4 in view.G.get(l3, []))
                if not ok:
                    bad.append(('edges_nbrto', (u, v), (l3, l4)))
    return bad


def realmap_claims(results, cfg):
    cl = []
    for r in results:
        if 'offered_bad' in r:
            cl.append((f"{r['tag']}:map_offers_only_moves_present_in_its_graph ({r['offered_bad'][:3]})", LL.zb(not r['offered_bad'])))
        if not r['states'] or not r['lb']:
            continue
        class V:
            lattice_best = r['lb']
            node_path = list(r['states'])
            node_path_to_only_nodes = r['mt'].node_path_to_only_nodes
        for nm, f in LL.c04_claims(r['view'], V, cfg):
            cl.append((f"{r['tag']}:{nm}", f))
    return cl


def run_realmap(inst):
    """G-real: the REAL InMemMap (its own neighbour queries and spatial queries, real planar kernels) with symbolic observations;
    the map is changed through its public interface between two matches.  Oracle: the raw graph dictionary at the time of each match."""
    import z3
    from symx import engine as E, runner, greal
    from symx.matchlib import Cfg, make_matcher
    _, lay, fam, ne, mutation = inst[:5]
    budget = inst[5] if len(inst) > 5 else None
    cfg = Cfg(fam=fam, T=2, ne=ne, **NOSYM)
    shims.install()
    name = f"realmap {lay} {fam} ne={int(ne)} change={mutation}"

    def scenario():
        eng = E.get_engine()
        # par_link: first observation next to the two-way road, second one next to the parallel one-way road
        path = greal.make_path(eng, 2, '1d', **(dict(ys=(0.05, 0.28)) if lay == 'par_link' else {}))
        return dict(path=path, results=realmap_run(eng, lay, cfg, mutation, path))

    def claims(eng, v):
        return realmap_claims(v['results'], cfg)

    def confirm(eng, model, v, cname):
        if not isinstance(v, dict):
            return None
        cpath = greal.concrete_path(model, v['path'])
        bad = realmap_concrete(lay, fam, ne, mutation, cpath)
        if bad:
            return dict(desc=bad, kind='realmap', layout=lay, fam=fam, ne=ne, mutation=list(mutation), path=[list(p) for p in cpath])
        return None

    def witness(eng, v):
        t = ['realmap']
        rs = v['results']
        if rs[1]['states'] and [m.shortkey for m in rs[1]['lb']] != [m.shortkey for m in rs[0]['lb']]:
            t.append('realmap_change_altered_the_result')
        if any(len(set(m.shortkey for m in r['lb'])) > 1 for r in rs):
            t.append('moved')
        return t
    try:
        return runner.explore(name, runner.nra_engine(10000), scenario, claims, confirm=confirm, witness=witness, budget_s=budget, exc_is_violation=False)
    finally:
        shims.uninstall()


def realmap_concrete(lay, fam, ne, mutation, cpath):
    """the same sequence on plain floats with the unmodified code; returns None or a description"""
    from symx.matchlib import Cfg
    cfg = Cfg(fam=fam, T=2, ne=ne, **NOSYM)
    with shims.concrete():
        try:
            results = realmap_run(None, lay, cfg, tuple(mutation), [tuple(p) for p in cpath])
        except Exception:
            return None                      # totality is C17's subject
        for r in results:
            if r.get('offered_bad'):
                return (f"InMemMap layout {lay}, map change {mutation}: {r['tag']}: the map's neighbour queries offer moves that its graph / linked-edge table "
                        f"does not contain: {r['offered_bad'][:4]}; graph now {r['view'].G}, linked {r['view'].linked}")
            if not r['states'] or not r['lb']:
                continue
            keys = [m.shortkey for m in r['lb']]
            missing = [k for k in keys if not LL.state_exists(r['view'], k)]
            bad = [(a, b) for a, b in zip(keys, keys[1:]) if not LL.moves_ok(r['view'], a, b)]
            if missing or bad:
                return (f"InMemMap layout {lay}, {fam}, non-emitting={ne}, observations {cpath}, map change {mutation}: {r['tag']} best path {keys} - "
                        f"states not in the map: {missing}; moves the map does not offer: {bad}; graph now { {k: v for k, v in r['view'].G.items()} }")
    return None


def run_crosshair(tier):
    """CrossHair (second engine): node_path_to_only_nodes over symbolic int labels.  Returns dict(confirmed, refuted, unknown, out)."""
    t0 = time.time()
    env = dict(os.environ, PYTHONPATH=f"{REPO}:{VERIF}")
    to = '20' if tier == 'quick' else '90'
    cmd = [sys.executable, '-m', 'crosshair', 'check', '--report_all', '--per_condition_timeout', to,
           os.path.join(VERIF, 'harness', 'crosshair_c04.py')]
    try:
        p = subprocess.run(cmd, env=env, capture_output=True, text=True, timeout=600)
        out = p.stdout + p.stderr
    except Exception as e:
        return dict(error=str(e), wall=time.time() - t0)
    conf = out.count('Confirmed over all paths')
    ref = len([l for l in out.splitlines() if 'error:' in l and 'false when calling' in l.lower()]) + out.count('false when calling')
    unk = out.count('Not confirmed') + out.count('Unable to meet precondition')
    return dict(confirmed=conf, refuted=ref, unknown=unk, out=out[-2000:], wall=round(time.time() - t0, 1))


def main(tier):
    import_repo()
    from leuvenmapmatching.matcher import base as mb
    from leuvenmapmatching.map import inmem
    rep = Report(PID, tier)
    shims.selftest_halfnorm()
    rep.functions = src_hash(mb.BaseMatcher._match_states, mb.BaseMatcher._match_non_emitting_states_inner,
                             mb.BaseMatcher._match_non_emitting_states_end, mb.BaseMatcher._node_in_prev_ne,
                             mb.BaseMatcher.node_path_to_only_nodes, mb.BaseMatcher.get_path, inmem.InMemMap.nodes_nbrto,
                             inmem.InMemMap.edges_nbrto)
    budget = 60 if tier == 'quick' else 900
    res = gabs.run_all(rep, run_instance, instances(tier), budget, 16 * (100 if tier == 'quick' else 900))
    from symx.common import run_instances
    rb = 30 if tier == 'quick' else 400
    real = [('realmap', lay, fam, ne, mut, rb) for lay, mut in (('oneway4', ('del_node', 'D')), ('oneway4', ('purge',)),
                                                                ('oneway3', ('add_node', 'D', (0.0, 3.0), [('C', 'D')])), ('line3', ('del_node', 'C')))
            for fam, ne in (('simple_n', True), ('dist', True)) + ((('simple', False),) if tier == 'thorough' else ())]
    # linked parallel edges declared for one direction of a two-way road only (real InMemMap.edges_nbrto)
    real += [('realmap', 'par_link', fam, ne, ('none',), rb) for fam, ne in (('simple', False), ('simple', True))]
    res = list(res) + list(run_instances(run_instance, real))
    ch = run_crosshair(tier)
    rep.extra['crosshair_node_path_to_only_nodes'] = ch
    if ch.get('refuted'):
        from symx.common import write_replay
        fn = write_replay(PID, dict(property=PID, kind='crosshair', output=ch['out']))
        rep.violations.append(dict(replay=fn, msg="CrossHair counterexample for node_path_to_only_nodes: " + ch['out'][-600:]))
    elif ch.get('confirmed'):
        rep.paths += ch['confirmed']
        rep.paths_total += ch['confirmed']
    rep.bounds = dict(graphs="linked3 (3 edges, one linked pair), par2 (2 linked parallel edges), linkin (two edges into one node, one of them linked), oneway4, tri, line3, fork, oneway3, line2" if tier == 'quick'
                      else "all digraphs <=3 nodes, fork, oneway4, path4, diamond, star, linked3, par2, linkin",
                      T="2..3", variants="self-listed neighbours on/off, one-way, dead ends, linked pair, non-emitting on/off, width-1 then widen, extend",
                      crosshair="node_path_to_only_nodes: state sequences of length 4 over symbolic int labels satisfying the walk predicate")
    rep.bounds['real_map'] = "real InMemMap layouts oneway3/oneway4/line3/par_link (linked parallel edge for one direction of a two-way road) with 1-D symbolic observations (T=2): match, change the map (del_node, purge, add_node+add_edge), match again with a fresh and with the old matcher"
    rep.outside = ["SqliteMap neighbour queries (see C12)", "graphs beyond the bound", "jump operation (continue_with_distance)"]
    rep.assumptions = ["AbsMap lists neighbours like InMemMap (end-node successors + linked edges; node itself when self_listed)"]
    gabs.collect(rep, res, PID, need_tags=('moved', 'nonemitting_on_best_path', 'linked_edge_hop', 'u_turn'))
    return rep.finish("symbolic execution of the real match()/widen/extend over abstract geometry; every best path checked against an "
                      "adjacency oracle built from the graph dictionary; CrossHair on node_path_to_only_nodes (symbolic int labels)")


def replay_file(path):
    import json
    import_repo()
    d = json.load(open(path))
    if d.get('kind') == 'crosshair':
        print(d['output'])
        return 1
    if d.get('kind') == 'realmap':
        bad = realmap_concrete(d['layout'], d['fam'], d['ne'], tuple(tuple(x) if isinstance(x, list) and x and isinstance(x[0], list) else x for x in d['mutation']), d['path'])
        print(bad or 'consistent')
        return 1 if bad else 0
    return gabs.replay(path, claims_fn)

"""C16 - invariance under relabelling and rigid motions of the plane (DESIGN.md section 5, C16).

(1) CrossHair: label-derived strings compared by the matchers are injective in the label tuple (symbolic str/int labels).
(2) R in G-abs: the same topology under a bijective relabelling (labels containing '-', mixed int/str, other listing order) and
    with all distances and distance parameters scaled by a constant: same index and probability, path equal up to renaming.
(3) K relational on the real planar kernels: f(T(x)) = T(f(x)) for T in {axis swap, scaling by symbolic c>0, translation by a
    symbolic offset}; the absolute tolerances (isclose 1e-8) make scaling a known finding on degenerate inputs.
"""
import os
import subprocess
import sys
import time

import z3

from symx import engine as E
from symx import shims, gabs, runner
from symx.absmap import NAMED
from symx.common import Report, import_repo, src_hash, run_instances, write_replay, load_findings, VERIF, REPO
from symx.matchlib import TOL

PID = 'C16'


# ------------------------------------------------------------------------------------------------ R: relabel / scale (G-abs)
def claims_fn(ctx):
    a = [r for r in ctx['results'] if r['gen'] == 0][-1]
    b = [r for r in ctx['results'] if r['gen'] == 1][-1]
    cl = [('both_return_lists', a['states'] is not None and b['states'] is not None)]
    if a['states'] is None or b['states'] is None:
        return cl
    cl.append(('same_index', bool(a['states']) == bool(b['states']) and a['idx'] == b['idx']))
    if a['states'] and b['states'] and a['idx'] == b['idx']:
        sa, sb = E.lift(a['score']), E.lift(b['score'])
        cl.append(('same_probability', z3.And(sa <= sb + TOL, sb <= sa + TOL)))
    return cl


def witness_fn(ctx):
    a = [r for r in ctx['results'] if r['gen'] == 0][-1]
    t = ['nonempty'] if a['states'] else ['empty']
    if any(m.obs_ne for m in a['lattice_best']):
        t.append('nonemitting_on_best_path')
    if len(set(m.shortkey for m in a['lattice_best'])) > 2:
        t.append('three_states_on_path')
    return t


NOSYM = dict(sym_maxdist=False, sym_init=False, sym_minprob=False)
MD = dict(sym_maxdist=True, sym_init=False, sym_minprob=False)
DASH = [["A", "A-B"], ["B", "C"], ["C", "A"], ["D", "B-C"]]          # oneway4 A>B>C>D  ->  "A-B">"C">"A">"B-C"
MIXED = [["A", 1], ["B", "1"], ["C", 2], ["D", "2"]]
PLAIN = [["A", "n3"], ["B", "n1"], ["C", "n0"], ["D", "n2"]]


def r_instances(tier):
    out = []
    ow4, ow3, l2, fork = NAMED['oneway4'], NAMED['oneway3'], NAMED['line2'], NAMED['fork']
    for fam in ('simple', 'dist'):
        for gb in (True, False):
            out.append(('oneway4', ow4, dict(fam=fam, T=3, ne=False, goingback=gb, **NOSYM), [('match', 3), ('new', dict(relabel=DASH)), ('match', 3)], {}))
        out.append(('oneway4', ow4, dict(fam=fam, T=2, ne=True, goingback=True, **NOSYM), [('match', 2), ('new', dict(relabel=MIXED)), ('match', 2)], {}))
        out.append(('oneway3', ow3, dict(fam=fam, T=2, ne=False, goingback=True, **MD), [('match', 2), ('new', dict(relabel=PLAIN[:3], order=['edges', 'nbr'])), ('match', 2)], {}))
        out.append(('line2', l2, dict(fam=fam, T=2, ne=False, goingback=True, **MD), [('match', 2), ('new', dict(scale=4.0)), ('match', 2)], {}))
        out.append(('oneway3', ow3, dict(fam=fam, T=2, ne=True, goingback=True, **NOSYM), [('match', 2), ('new', dict(scale=0.25)), ('match', 2)], {}))
        out.append(('oneway4', ow4, dict(fam=fam, T=2, ne=True, goingback=True, **NOSYM), [('match', 2), ('new', dict(scale=1048576.0)), ('match', 2)], {}))
        out.append(('fork', fork, dict(fam=fam, T=2, ne=False, width=1, goingback=True, **NOSYM), [('match', 2), ('new', dict(relabel=PLAIN, order=['edges', 'nbr'])), ('match', 2)], {}))
    out.append(('line2', l2, dict(fam='simple_n', T=2, ne=True, goingback=True, **NOSYM), [('match', 2), ('new', dict(relabel=[["A", "A-B"], ["B", "A"]])), ('match', 2)], {}))
    out.append(('oneway3', ow3, dict(fam='simple_n', T=2, ne=False, goingback=True, **MD), [('match', 2), ('new', dict(scale=4.0)), ('match', 2)], {}))
    if tier == 'thorough':
        for fam in ('simple', 'dist', 'simple_n'):
            for g, gn, rl in ((ow4, 'oneway4', DASH), (ow4, 'oneway4', MIXED), (NAMED['tri'], 'tri', PLAIN[:3]), (fork, 'fork', DASH)):
                for ne in (False, True):
                    for T in (2, 3):
                        out.append((gn, g, dict(fam=fam, T=T, ne=ne, goingback=True, **MD), [('match', T), ('new', dict(relabel=rl, order=['edges', 'nbr'])), ('match', T)], {}))
                        for sc in (0.25, 1024.0):
                            out.append((gn, g, dict(fam=fam, T=T, ne=ne, goingback=True, **MD), [('match', T), ('new', dict(scale=sc)), ('match', T)], {}))
    return out


# ------------------------------------------------------------------------------------------------ K: kernel transforms
def k_instances(tier):
    out = []
    for fn in ('project', 'dps', 'dss'):
        for tr in ('swap', 'scale', 'translate'):
            out.append(('kernel', fn, tr))
    return out


def run_kernel(inst):
    from leuvenmapmatching.util import dist_euclidean as de
    _, fn, tr = inst[:3]
    budget = inst[3] if len(inst) > 3 else None
    shims.install()
    name = f"kernel {fn} under {tr}"
    F_SEG = ((0.5, -1.0), (2.0, 3.0))

    def transform(eng):
        if tr == 'swap':
            return (lambda p: (p[1], p[0])), (lambda d: d), None
        if tr == 'scale':
            c = eng.fresh("c")
            eng.assume(c.t > 0)
            return (lambda p: (p[0] * c, p[1] * c)), (lambda d: d * c), c
        oy, ox = eng.fresh("off_y"), eng.fresh("off_x")
        return (lambda p: (p[0] + oy, p[1] + ox)), (lambda d: d), (oy, ox)

    def call(pts):
        if fn == 'project':
            pi, t = de.project(pts[0], pts[1], pts[2])
            return dict(pts=[pi], ts=[t], d=None)
        if fn == 'dps':
            d, pi, t = de.distance_point_to_segment(pts[2], pts[0], pts[1])
            return dict(pts=[pi], ts=[t], d=d)
        d, pf, pt, uf, ut = de.distance_segment_to_segment(pts[0], pts[1], pts[2], pts[3])
        return dict(pts=[pf, pt], ts=[uf, ut], d=d)

    def scenario():
        eng = E.get_engine()
        if fn == 'dss':
            pts = [F_SEG[0], F_SEG[1], (eng.fresh("y3"), eng.fresh("x3")), (eng.fresh("y4"), eng.fresh("x4"))]
        else:
            pts = [(eng.fresh("y1"), eng.fresh("x1")), (eng.fresh("y2"), eng.fresh("x2")), (eng.fresh("y3"), eng.fresh("x3"))]
        T, Td, par = transform(eng)
        a = call(pts)
        b = call([T(p) for p in pts])
        return dict(pts=pts, a=a, b=b, T=T, Td=Td, par=par)

    def sqv(d):
        return d.sq if isinstance(d, E.Sym) and d.sq is not None else E.lift(d) * E.lift(d)

    def claims(eng, v):
        a, b, T, Td = v['a'], v['b'], v['T'], v['Td']
        cl = []
        for i, (ta, tb) in enumerate(zip(a['ts'], b['ts'])):
            cl.append((f'relative_position_{i}_invariant', E.lift(ta) == E.lift(tb)))
        for i, (pa, pb) in enumerate(zip(a['pts'], b['pts'])):
            tp = T(pa)
            cl.append((f'point_{i}_transforms_with_the_input', z3.And(E.lift(tp[0]) == E.lift(pb[0]), E.lift(tp[1]) == E.lift(pb[1]))))
        if a['d'] is not None:
            if tr == 'scale':
                c = E.lift(v['par'])
                cl.append(('distance_scales', sqv(b['d']) == c * c * sqv(a['d'])))
            else:
                cl.append(('distance_invariant', sqv(b['d']) == sqv(a['d'])))
        return cl

    findings = load_findings(PID)

    def confirm(eng, model, v, cname):
        def cv(x):
            return E.model_value(model, x.t) if isinstance(x, E.Sym) else float(x)
        cp = [tuple(cv(c) for c in p) for p in v['pts']]
        if tr == 'swap':
            Tc, desc = (lambda p: (p[1], p[0])), 'axis swap'
        elif tr == 'scale':
            c = cv(v['par'])
            Tc, desc = (lambda p: (p[0] * c, p[1] * c)), f'scaling by {c}'
        else:
            oy, ox = cv(v['par'][0]), cv(v['par'][1])
            Tc, desc = (lambda p: (p[0] + oy, p[1] + ox)), f'translation by ({oy},{ox})'
        with shims.concrete():
            ra = call(cp)
            rb = call([Tc(p) for p in cp])
        scale_d = (cv(v['par']) if tr == 'scale' else 1.0)
        bad = None
        for i, (ta, tb) in enumerate(zip(ra['ts'], rb['ts'])):
            if abs(ta - tb) > 1e-6:
                bad = f"relative position {i}: {ta} vs {tb}"
        if bad is None and ra['d'] is not None and abs(ra['d'] * scale_d - rb['d']) > 1e-6 * max(1.0, abs(rb['d'])):
            bad = f"distance {ra['d']}*{scale_d} vs {rb['d']}"
        if bad is None:
            return None
        # tolerance class: some coordinate difference / cross product is within 1e-8 in exactly one of the two frames
        tol = False
        if tr == 'scale':
            def near0(ps):
                (a1, a2), (b1, b2) = ps[0], ps[1]
                deg = abs(a1 - b1) <= 1e-8 and abs(a2 - b2) <= 1e-8
                n = None
                if len(ps) == 4:
                    (c1, c2), (d1, d2) = ps[2], ps[3]
                    n = abs((d2 - c2) * (b1 - a1) - (d1 - c1) * (b2 - a2)) <= 1e-8
                    deg = (deg, abs(c1 - d1) <= 1e-8 and abs(c2 - d2) <= 1e-8)
                return (deg, n)
            tol = near0(cp) != near0([Tc(p) for p in cp])
        known = None
        for f in findings:
            if f.get('predicate') == 'absolute_tolerance_branch_differs_between_scales' and tol:
                known = f"{f['id']}: {f['what'][:150]}"
        return dict(desc=f"{fn}{tuple(cp)} under {desc}: {bad}", fn=fn, transform=tr, points=cp, known=known, kind='kernel',
                    param=(cv(v['par']) if tr == 'scale' else ([cv(x) for x in v['par']] if tr == 'translate' else None)))

    out = runner.explore(name, runner.nra_engine(8000, lazy=False), scenario, claims, confirm=confirm, budget_s=budget,
                         witness=lambda eng, v: ['kernel_path'])
    shims.uninstall()
    return out


def run_mapswap(inst):
    """K relational on the in-memory map: the same query on a map and on the axis-swapped / translated map (query transformed
    accordingly) returns the same elements with the same distances and relative positions."""
    from leuvenmapmatching.map.inmem import InMemMap
    _, what, tr = inst[:3]
    budget = inst[3] if len(inst) > 3 else None
    shims.install()
    graph = {1: [2], 2: []} if what.endswith('2') else {1: [2], 2: [3], 3: []}
    what = what.rstrip('2')

    def scenario():
        eng = E.get_engine()
        co = {n: (eng.fresh(f"y{n}"), eng.fresh(f"x{n}")) for n in graph}
        if len(graph) == 2:
            co[1] = (0.0, 0.0)          # small map: first node at the origin (translations are a separate instance), cheaper queries
        loc = (eng.fresh("qy"), eng.fresh("qx"))
        r2 = z3.Real("r_sq")
        eng.assume(r2 > 0)
        r = eng.sqrt_of(r2, name="r")
        if tr == 'swap':
            T = lambda p: (p[1], p[0])
        else:
            oy, ox = eng.fresh("off_y"), eng.fresh("off_x")
            T = lambda p: (p[0] + oy, p[1] + ox)
        out = []
        for f in (lambda p: p, T):
            mp = InMemMap("m", graph={n: (f(co[n]), list(graph[n])) for n in graph}, use_latlon=False)
            res = mp.nodes_closeto(f(loc), max_dist=r) if what == 'nodes' else mp.edges_closeto(f(loc), max_dist=r)
            out.append(res)
        return dict(out=out, co=co, loc=loc, r2=r2)

    def sqv(d):
        return d.sq if isinstance(d, E.Sym) and d.sq is not None else E.lift(d) * E.lift(d)

    def claims(eng, v):
        a, b = v['out']
        ka = [(row[1],) if what == 'nodes' else (row[1], row[3]) for row in a]
        kb = [(row[1],) if what == 'nodes' else (row[1], row[3]) for row in b]
        cl = [('same_elements_returned', z3.BoolVal(sorted(ka) == sorted(kb)))]
        if sorted(ka) == sorted(kb):
            da = {k: sqv(row[0]) for k, row in zip(ka, a)}
            db = {k: sqv(row[0]) for k, row in zip(kb, b)}
            cl.append(('same_distances', z3.And(*[da[k] == db[k] for k in da]) if da else z3.BoolVal(True)))
            if what == 'edges':
                ta = {k: E.lift(row[6]) for k, row in zip(ka, a)}
                tb = {k: E.lift(row[6]) for k, row in zip(kb, b)}
                cl.append(('same_relative_positions', z3.And(*[ta[k] == tb[k] for k in ta]) if ta else z3.BoolVal(True)))
        return cl

    def confirm(eng, model, v, cname):
        cv = lambda x: E.model_value(model, x.t) if isinstance(x, E.Sym) else float(x)
        co = {n: tuple(cv(c) for c in p) for n, p in v['co'].items()}
        loc = tuple(cv(c) for c in v['loc'])
        r = max(E.model_value(model, v['r2']), 0.0) ** 0.5
        if tr == 'swap':
            T = lambda p: (p[1], p[0])
        else:
            oy, ox = cv(z3.Real("off_y")) if False else E.model_value(model, z3.Real("off_y")), E.model_value(model, z3.Real("off_x"))
            T = lambda p: (p[0] + oy, p[1] + ox)
        res = []
        with shims.concrete():
            for f in (lambda p: p, T):
                mp = InMemMap("m", graph={n: (f(co[n]), list(graph[n])) for n in graph}, use_latlon=False)
                rr = mp.nodes_closeto(f(loc), max_dist=r) if what == 'nodes' else mp.edges_closeto(f(loc), max_dist=r)
                res.append(sorted(((row[1],) if what == 'nodes' else (row[1], row[3]), round(row[0], 9)) for row in rr))
        if [k for k, _ in res[0]] != [k for k, _ in res[1]]:
            return dict(desc=f"InMemMap.{what}_closeto(loc={loc}, max_dist={r}) on {co}: {res[0]}, but after the {tr} of map and query: {res[1]}",
                        kind='mapswap', coords={str(k): list(c) for k, c in co.items()}, loc=list(loc), radius=r, transform=tr)
        return None
    out = runner.explore(f"inmem {what}_closeto under {tr}", runner.nra_engine(8000), scenario, claims, confirm=confirm, budget_s=budget,
                         witness=lambda eng, v: ['mapswap_path'])
    shims.uninstall()
    return out


def run_boxswap(inst):
    """K relational on InMemMap.all_nodes(bb) / all_edges(bb): the box listing of a map equals the box listing of the axis-swapped
    (or translated) map with the box transformed accordingly - pure comparisons, complete enumeration in seconds."""
    from leuvenmapmatching.map.inmem import InMemMap
    _, what, tr = inst[:3]
    budget = inst[3] if len(inst) > 3 else None
    shims.install()
    graph = {1: [2], 2: [3], 3: []}

    def transform(eng_or_model, sym):
        if tr == 'swap':
            return (lambda p: (p[1], p[0])), (lambda b: (b[1], b[0], b[3], b[2]))
        oy, ox = (eng_or_model.fresh("off_y"), eng_or_model.fresh("off_x")) if sym else eng_or_model
        return (lambda p: (p[0] + oy, p[1] + ox)), (lambda b: (b[0] + oy, b[1] + ox, b[2] + oy, b[3] + ox))

    def listing(mp, bb):
        if what == 'box_nodes':
            return sorted(k for k, _ in mp.all_nodes(bb=bb))
        return sorted((r[0], r[2]) for r in mp.all_edges(bb=bb))

    def scenario():
        eng = E.get_engine()
        co = {n: (eng.fresh(f"y{n}"), eng.fresh(f"x{n}")) for n in graph}
        bb = tuple(eng.fresh(f"bb{i}") for i in range(4))
        eng.assume(z3.And(bb[0].t <= bb[2].t, bb[1].t <= bb[3].t))
        T, TB = transform(eng, True)
        out = []
        for f, fb in ((lambda p: p, lambda b: b), (T, TB)):
            mp = InMemMap("m", graph={n: (f(co[n]), list(graph[n])) for n in graph}, use_latlon=False)
            out.append(listing(mp, fb(bb)))
        return dict(out=out, co=co, bb=bb)

    def claims(eng, v):
        return [('same_box_listing', z3.BoolVal(v['out'][0] == v['out'][1]))]

    def confirm(eng, model, v, cname):
        if not isinstance(v, dict):
            return None
        cv = lambda x: E.model_value(model, x.t) if isinstance(x, E.Sym) else float(x)
        co = {n: tuple(cv(c) for c in p) for n, p in v['co'].items()}
        bb = tuple(cv(c) for c in v['bb'])
        off = (E.model_value(model, z3.Real("off_y")), E.model_value(model, z3.Real("off_x"))) if tr != 'swap' else None
        T, TB = transform(off, False)
        res = []
        with shims.concrete():
            for f, fb in ((lambda p: p, lambda b: b), (T, TB)):
                mp = InMemMap("m", graph={n: (f(co[n]), list(graph[n])) for n in graph}, use_latlon=False)
                res.append(listing(mp, fb(bb)))
        if res[0] != res[1]:
            fn = 'all_nodes' if what == 'box_nodes' else 'all_edges'
            return dict(desc=f"InMemMap.{fn}(bb={bb}) on {co}: {res[0]}, but after the {tr} of map and box: {res[1]}", kind='mapswap',
                        coords={str(k): list(c) for k, c in co.items()}, bb=list(bb), transform=tr)
        return None
    out = runner.explore(f"inmem {what} under {tr}", runner.lra_engine(5000), scenario, claims, confirm=confirm, budget_s=budget,
                         witness=lambda eng, v: ['mapswap_path'] + (['box_listing_nonempty'] if v['out'][0] else []))
    shims.uninstall()
    return out


def run_instance(inst):
    if inst[0] == 'mapswap' and inst[1].startswith('box_'):
        return run_boxswap(inst)
    if inst[0] == 'mapswap':
        return run_mapswap(inst)
    if inst[0] == 'kernel':
        return run_kernel(inst)
    return gabs.run(inst, claims_fn, witness_fn)


def compared_attributes():
    """Segment attributes that the transition models of the current source compare (read from the AST of logprob_trans)."""
    import ast
    import inspect
    import textwrap
    from leuvenmapmatching.matcher import simple as ms, distance as md
    attrs = set()
    for fn in (ms.SimpleMatcher.logprob_trans, md.DistanceMatcher.logprob_trans):
        tree = ast.parse(textwrap.dedent(inspect.getsource(fn)))
        for node in ast.walk(tree):
            if isinstance(node, ast.Compare):
                for side in [node.left] + list(node.comparators):
                    if isinstance(side, ast.Attribute) and side.attr in ('label', 'labels', 'key', 'rlabel', 'shortkey'):
                        attrs.add(side.attr)
    return sorted(attrs)


CH_TEMPLATE = '''
from leuvenmapmatching.util.segment import Segment


def _edge_{attr}_injective(a1: str, a2: str, b1: str, b2: str) -> bool:
    """
    Segment.{attr} (compared by logprob_trans) is equal exactly when the (l1, l2) label pairs are equal.
    pre: len(a1) <= 3 and len(a2) <= 3 and len(b1) <= 3 and len(b2) <= 3
    post: _
    """
    s = Segment(a1, (0.0, 0.0), a2, (1.0, 1.0))
    t = Segment(b1, (0.0, 0.0), b2, (1.0, 1.0))
    return (s.{attr} == t.{attr}) == ((a1, a2) == (b1, b2))


def _node_vs_edge_{attr}(n: str, b1: str, b2: str) -> bool:
    """
    A node state and an edge state never compare equal.
    pre: len(n) <= 4 and len(b1) <= 3 and len(b2) <= 3
    post: _
    """
    s = Segment(n, (0.0, 0.0))
    t = Segment(b1, (0.0, 0.0), b2, (1.0, 1.0))
    return s.{attr} != t.{attr}


def _mixed_int_str_{attr}(a: int, b: str) -> bool:
    """
    An integer label and a string label never compare equal.
    pre: 0 <= a <= 99 and len(b) <= 2
    post: _
    """
    s = Segment(a, (0.0, 0.0), 7, (1.0, 1.0))
    t = Segment(b, (0.0, 0.0), 7, (1.0, 1.0))
    return s.{attr} != t.{attr}
'''


def run_crosshair(tier):
    import tempfile
    t0 = time.time()
    attrs = compared_attributes()
    scratch = tempfile.mkdtemp(prefix='lmm-verif-ch-', dir='/var/tmp')
    fn = os.path.join(scratch, 'crosshair_c16_gen.py')
    with open(fn, 'w') as f:
        f.write('"""generated from the attributes compared in logprob_trans: %s"""\n' % attrs)
        for a in attrs:
            f.write(CH_TEMPLATE.replace('{attr}', a))
    env = dict(os.environ, PYTHONPATH=f"{REPO}:{VERIF}")
    cmd = [sys.executable, '-m', 'crosshair', 'check', '--report_all', '--per_condition_timeout', '20' if tier == 'quick' else '120', fn]
    try:
        p = subprocess.run(cmd, env=env, capture_output=True, text=True, timeout=900)
        out = p.stdout + p.stderr
    except Exception as e:
        return dict(error=str(e), cex=[], confirmed=0, unknown=0, out='', attrs=attrs)
    finally:
        import shutil
        shutil.rmtree(scratch, ignore_errors=True)
    cex = [l.split('error: ')[1] for l in out.splitlines() if 'error: false when calling' in l]
    return dict(confirmed=out.count('Confirmed over all paths'), cex=cex, unknown=out.count('Not confirmed') + out.count('Unable to meet'),
                out=out[-1500:].replace(scratch, ''), wall=round(time.time() - t0, 1), attrs=attrs)


def replay_label_collision(cex_line):
    """Replay a CrossHair counterexample on the real Segment class."""
    import re
    from leuvenmapmatching.util.segment import Segment
    m = re.search(r"calling _(edge|node_vs_edge|mixed_int_str)_(\w+?)(?:_injective)?\((.*)\) \(which", cex_line)
    if not m:
        return None
    kind, attr = m.group(1), m.group(2)
    args = eval("(" + m.group(3) + ",)")
    if kind == 'node_vs_edge':
        s, t = Segment(args[0], (0.0, 0.0)), Segment(args[1], (0.0, 0.0), args[2], (1.0, 1.0))
        return (getattr(s, attr) == getattr(t, attr)), f"node {args[0]!r} and edge ({args[1]!r},{args[2]!r}) have the same Segment.{attr} {getattr(s, attr)!r}"
    if kind == 'mixed_int_str':
        s, t = Segment(args[0], (0.0, 0.0), 7, (1.0, 1.0)), Segment(args[1], (0.0, 0.0), 7, (1.0, 1.0))
        return (getattr(s, attr) == getattr(t, attr)), f"labels {args[0]!r} and {args[1]!r} give the same Segment.{attr} {getattr(s, attr)!r}"
    s, t = Segment(args[0], (0.0, 0.0), args[1], (1.0, 1.0)), Segment(args[2], (0.0, 0.0), args[3], (1.0, 1.0))
    same = getattr(s, attr) == getattr(t, attr)
    return (same != ((args[0], args[1]) == (args[2], args[3]))), f"edges {args[:2]!r} and {args[2:]!r} have the same Segment.{attr} {getattr(s, attr)!r}"


def main(tier):
    import_repo()
    from leuvenmapmatching.matcher import base as mb, simple as ms, distance as md
    from leuvenmapmatching.util import dist_euclidean as de, segment as sg
    rep = Report(PID, tier)
    shims.selftest_halfnorm()
    rep.functions = src_hash(sg.Segment, ms.SimpleMatcher.logprob_trans, md.DistanceMatcher.logprob_trans, de.project,
                             de.distance_point_to_segment, de.distance_segment_to_segment, mb.BaseMatcher._match_states)
    budget = 60 if tier == 'quick' else 600
    kres = run_instances(run_instance, [i + (budget,) for i in k_instances(tier)] + [('mapswap', w, t, budget) for w in ('nodes', 'edges', 'edges2', 'box_nodes', 'box_edges') for t in ('swap', 'translate')])
    res = gabs.run_all(rep, run_instance, r_instances(tier), budget, 16 * (80 if tier == 'quick' else 900))
    ch = run_crosshair(tier)
    rep.extra['crosshair_labels'] = ch
    findings = load_findings(PID)
    known, known_ids = set(), set()
    for line in ch.get('cex', []):
        r = replay_label_collision(line)
        if r and r[0]:
            kf = [f for f in findings if f.get('predicate') == 'label_string_collision']
            if kf:
                known.add(f"{kf[0]['id']}: {kf[0]['what'][:150]} (e.g. {r[1]})")
            else:
                fn = write_replay(PID, dict(property=PID, kind='crosshair', counterexample=line, observed=r[1]))
                rep.violations.append(dict(replay=fn, msg=f"label strings are not injective: {r[1]}"))
    if ch.get('confirmed'):
        rep.paths += ch['confirmed']
        rep.paths_total += ch['confirmed']
    rep.bounds = dict(labels="CrossHair: for every Segment attribute compared in logprob_trans (read from the AST: %s): str labels of <=3 (4) characters, int 0..99 vs str" % ch.get('attrs'),
                      relabelling="G-abs, oneway4/oneway3/line2/fork, T<=3: labels with '-', mixed int/str, renamed + other listing order; avoid_goingback on/off",
                      scaling="G-abs: all distances, obs_noise and distance thresholds multiplied by 4, 0.25, 2^20 (concrete constants); kernels: symbolic c>0",
                      kernels="project / distance_point_to_segment with all coordinates symbolic; distance_segment_to_segment with the first segment fixed; axis swap, scaling, translation by symbolic offset")
    rep.outside = ["rounding (translation/scaling are exact only in the reals)", "graphs beyond the bound", "scaling by symbolic factors at matcher level"]
    rep.assumptions = ["AbsMap keeps geometry symbols under relabelling (canonical names)"]
    tags = {}
    for r in sorted(list(kres) + list(res), key=lambda r: r['name']):
        rep.add_instance(r)
        for t, n in r.get('tags', {}).items():
            tags[t] = tags.get(t, 0) + n
        for v in r.get('violations', []):
            if v.get('known'):
                kid = v['known'].split(':')[0]
                if kid not in known_ids:
                    known_ids.add(kid)
                    known.add(v['known'] + f" (e.g. {v['desc'][:160]})")
                continue
            fn = write_replay(PID, dict(property=PID, instance=r['name'], **{k: v[k] for k in v if k != 'desc'}, observed=v['desc']))
            rep.violations.append(dict(replay=fn, msg=f"{r['name']} claim={v['claim']}: {v['desc']}"))
        for c in r.get('candidates', []):
            rep.unconfirmed.append(f"{r['name']}: {c}")
    rep.known_hits.extend(sorted(known))
    rep.extra['reachability_tags'] = tags
    for need in ('nonempty', 'kernel_path', 'three_states_on_path'):
        if not tags.get(need):
            rep.harness_errors.append(f"vacuity: no path reached '{need}'")
    return rep.finish("CrossHair (z3) on label strings; relational symbolic execution of the real matcher under relabelling / scaling over abstract "
                      "geometry; relational symbolic execution of the real planar kernels under axis swap, scaling and translation (z3 nlsat)")


def replay_file(path):
    import json
    import_repo()
    d = json.load(open(path))
    if d.get('kind') in ('crosshair', 'kernel', 'mapswap'):
        print(d['observed'])
        return 1
    return gabs.replay(path, claims_fn)

"""C10 - matching is deterministic (DESIGN.md section 5, C10).

The environment is the stub: the iteration order of LatticeColumn.values_all() (a hash-ordered set in production) and the
order in which the map lists edges / nodes / neighbours are chosen by the engine (one fork per choice).  Shape R in G-abs:
the same matcher configuration is run under the given order and under an arbitrary order inside one symbolic path; equal
index and probability are asserted (paths may differ only on exact ties).  A violating order is replayed on the unmodified
code with the concrete permutations.
"""
from symx import shims, gabs
from symx.absmap import NAMED, library
from symx.common import Report, import_repo, src_hash
from harness.relational import same_result

PID = 'C10'


def claims_fn(ctx):
    a = [r for r in ctx['results'] if r['gen'] == 0][-1]
    b = [r for r in ctx['results'] if r['gen'] == 1][-1]
    return same_result(a, b, 'given_order_vs_arbitrary_order')


def witness_fn(ctx):
    b = [r for r in ctx['results'] if r['gen'] == 1][-1]
    tags = []
    recs = ctx.get('orders', [])
    if len(recs) > 1 and any(p != sorted(p) for p in recs[1].values()):
        tags.append('nontrivial_permutation')
    if b['states'] and b['idx'] < b['op'][1] - 1:
        tags.append('early_stop')
    if any(m.obs_ne > 0 for m in b['lattice_best']):
        tags.append('nonemitting_on_best_path')
    if b['states'] and b['idx'] == b['op'][1] - 1:
        tags.append('complete')
    return tags


NOSYM = dict(sym_maxdist=False, sym_init=False, sym_minprob=False)
MD = dict(sym_maxdist=True, sym_init=False, sym_minprob=False)


def ops_for(T, which):
    return [('match', T), ('new', dict(order=list(which))), ('match', T)]


def instances(tier):
    out = []
    if tier == 'quick':
        for fam in ('simple', 'dist'):
            out.append(('oneway3', NAMED['oneway3'], dict(fam=fam, T=2, ne=True, **MD), ops_for(2, ['values_all']), {}))
            out.append(('oneway4', NAMED['oneway4'], dict(fam=fam, T=2, ne=True, **MD), ops_for(2, ['values_all']), {}))
            out.append(('line2', NAMED['line2'], dict(fam=fam, T=2, ne=False, **MD), ops_for(2, ['values_all', 'edges']), {}))
            out.append(('fork', NAMED['fork'], dict(fam=fam, T=2, ne=False, width=1, **NOSYM), ops_for(2, ['edges', 'nbr']), {}))
            out.append(('fork', NAMED['fork'], dict(fam=fam, T=2, ne=True, width=1, **NOSYM), ops_for(2, ['nbr']), {}))
            out.append(('tri', NAMED['tri'], dict(fam=fam, T=2, ne=False, **NOSYM), ops_for(2, ['edges', 'values_all']), {}))
        out.append(('line2', NAMED['line2'], dict(fam='simple_n', T=2, ne=True, **MD), ops_for(2, ['values_all', 'nodes']), {}))
        # another interpreter process: the entries hash differently, so every set of entries (prev, prev_other, ...) iterates differently
        for fam in ('simple', 'dist'):
            for k in (1, 2, 3):
                out.append(('lasso', NAMED['lasso'], dict(fam=fam, T=2, ne=True, **NOSYM), [('match', 2), ('hashsalt', k), ('new', {}), ('match', 2)], {}))
            out.append(('tri', NAMED['tri'], dict(fam=fam, T=2, ne=True, **NOSYM), [('match', 2), ('hashsalt', 1), ('new', {}), ('match', 2)], {}))
        out.append(('star', NAMED['star'], dict(fam='simple_n', T=2, ne=False, width=1, **NOSYM), ops_for(2, ['nbr']), {}))
    else:
        gs = [x for x in library(3, named=('fork', 'oneway4', 'star')) if len([1 for u in x[1] for v in x[1][u]]) <= 6]
        for name, g in gs:
            for fam in ('simple', 'dist', 'simple_n'):
                for ne in (False, True):
                    for which in (['values_all'], ['edges', 'nodes'], ['nbr'], ['values_all', 'edges', 'nodes', 'nbr']):
                        out.append((name, g, dict(fam=fam, T=2, ne=ne, **MD), ops_for(2, which), {}))
                        out.append((name, g, dict(fam=fam, T=2, ne=ne, width=1, **NOSYM), ops_for(2, which), {}))
                    out.append((name, g, dict(fam=fam, T=3, ne=ne, **MD), ops_for(3, ['values_all']), {}))
    return out


def run_prune_order(inst):
    """K/R: the real LatticeColumn.prune on the same symbolic column filed in two different insertion orders must
    postpone / expand exactly the same entries (this is what the tie extension is for)."""
    import z3
    from symx import engine as E, runner
    from leuvenmapmatching.matcher.base import LatticeColumn, BaseMatching
    from leuvenmapmatching.util.segment import Segment
    _, n, W, with_thr = inst[:4]

    def scenario():
        eng = E.get_engine()
        lps = [eng.fresh(f"lp{i}") for i in range(n)]
        thr = eng.fresh("prune_thr") if with_thr else None
        rem, perm = list(range(n)), []
        while rem:
            perm.append(rem.pop(eng.choose(len(rem), tag="order")))
        outs = []
        for order in (list(range(n)), perm):
            col = LatticeColumn(0)
            ms = {}
            for i in order:
                m = BaseMatching(None, Segment(f"N{i}", (0.0, float(i)), f"M{i}", (1.0, float(i))), Segment("O0", (0.0, 0.0)),
                                 logprob=lps[i], obs=0, obs_ne=0, stop=False, delayed=0)
                col.upsert(m)
                ms[i] = m
            ret = col.prune(0, W, 0, thr)
            outs.append(([ms[i].delayed for i in range(n)], ret))
        return dict(outs=outs, perm=perm, lps=lps, thr=thr)

    def claims(eng, v):
        (da, ra), (db, rb) = v['outs']
        cl = [('same_entries_postponed_under_both_orders', z3.BoolVal(da == db))]
        if isinstance(ra, E.Sym) and isinstance(rb, E.Sym):
            cl.append(('same_threshold_returned', ra.t == rb.t))
        else:
            cl.append(('same_threshold_returned', z3.BoolVal((ra is None) == (rb is None) or ra is rb)))
        return cl

    def confirm(eng, model, v, cname):
        vals = [E.model_value(model, x.t) for x in v['lps']]
        tv = E.model_value(model, v['thr'].t) if v['thr'] is not None else None
        res = []
        for order in (list(range(n)), v['perm']):
            col = LatticeColumn(0)
            ms = {}
            for i in order:
                m = BaseMatching(None, Segment(f"N{i}", (0.0, float(i)), f"M{i}", (1.0, float(i))), Segment("O0", (0.0, 0.0)),
                                 logprob=vals[i], obs=0, obs_ne=0, stop=False, delayed=0)
                col.upsert(m)
                ms[i] = m
            ret = col.prune(0, W, 0, tv)
            res.append(([ms[i].delayed for i in range(n)], ret))
        if res[0] != res[1]:
            return dict(desc=f"prune(W={W}, thr={tv}) on scores {vals}: insertion order 0..{n-1} gives delayed={res[0][0]} ret={res[0][1]}, "
                             f"order {v['perm']} gives delayed={res[1][0]} ret={res[1][1]}", kind='prune_order', scores=vals, W=W, thr=tv, perm=v['perm'])
        return None

    def witness(eng, v):
        t = ['prune_order_nontrivial'] if v['perm'] != sorted(v['perm']) else []
        if any(d > 0 for d in v['outs'][0][0]):
            t.append('prune_postponed')
        return t
    return runner.explore(f"prune-order n={n} W={W} thr={int(with_thr)}", runner.lra_engine(5000), scenario, claims, confirm=confirm, witness=witness)


VEE = {"A": ["X"], "B": ["X"], "X": ["Y"], "Y": []}      # two predecessors reach the same non-emitting node


def run_instance(inst):
    if inst[0] == 'prune_order':
        return run_prune_order(inst)
    if inst[0] == 'ne_step_rel':
        from harness import nestep
        return nestep.run(inst)
    gabs.install_values_all_stub()
    try:
        return gabs.run(inst, claims_fn, witness_fn)
    finally:
        gabs.uninstall_values_all_stub()


def main(tier):
    import_repo()
    from leuvenmapmatching.matcher import base as mb
    rep = Report(PID, tier)
    shims.selftest_halfnorm()
    rep.functions = src_hash(mb.BaseMatcher._build_node_path, mb.BaseMatcher._build_matching_path, mb.LatticeColumn.values_all,
                             mb.LatticeColumn.prune, mb.BaseMatching.update, mb.BaseMatching.__hash__, mb.BaseMatcher.match)
    budget = 60 if tier == 'quick' else 900
    from symx.common import run_instances
    sb = 60 if tier == 'quick' else 600
    steps = [('ne_step_rel', 'order', 'vee', VEE, 'simple_n', sb), ('ne_step_rel', 'order', 'vee', VEE, 'simple', sb), ('ne_step_rel', 'order', 'vee', VEE, 'dist', sb),
             ('ne_step_rel', 'order', 'tri', NAMED['tri'], 'simple_n', sb), ('ne_step_rel', 'order', 'fork', NAMED['fork'], 'simple', sb)]
    # two routes that reconverge inside the non-emitting search and continue: what the merged entry carries on must not depend on which route came first
    D6 = dict(only0=[('A', 'B'), ('A', 'C')], only1=[('E', 'F')])
    steps += [('ne_step_rel', 'order', 'diamond6', NAMED['diamond6'], 'dist', sb, D6), ('ne_step_rel', 'order', 'diamond6', NAMED['diamond6'], 'simple', sb, D6)]
    kres = run_instances(run_instance, steps + [('prune_order', n, W, t) for n in ((3,) if tier == 'quick' else (3, 4)) for W in range(1, n) for t in (False, True)])
    res = list(kres) + gabs.run_all(rep, run_instance, instances(tier), budget, 16 * (100 if tier == 'quick' else 900))
    rep.bounds = dict(graphs="oneway3, oneway4, line2, fork, tri, star" if tier == 'quick' else "all digraphs <=3 nodes, fork, oneway4, star",
                      T="2..3", orders="re-salted hash of the lattice entries (3 salts; stands for other PYTHONHASHSEED values on sets other than values_all); arbitrary permutation of: values_all() iteration (stands for every PYTHONHASHSEED), edge/node listing of the spatial query, neighbour listing per node",
                      config="max_dist symbolic (early stop reachable) or width 1 (tie extension reachable); non-emitting on/off")
    rep.outside = ["rounding", "graphs/traces beyond the bound", "dictionary insertion order of the lattice layers beyond what the listing orders induce"]
    rep.assumptions = ["LatticeColumn.values_all replaced by an order-parametrised stub (hash order is a subset of all orders)", "AbsMap contract"]
    gabs.collect(rep, res, PID, need_tags=('nontrivial_permutation', 'complete', 'early_stop', 'prune_order_nontrivial', 'prune_postponed', 'ne_step_two_nonemitting_layers'))
    return rep.finish("relational symbolic execution of the real match() under two iteration/listing orders (engine-chosen permutations) in one "
                      "symbolic path over abstract geometry; equality of index and probability decided by z3")


def replay_file(path):
    import json
    import_repo()
    d = json.load(open(path))
    if d.get('kind') == 'ne_step_rel':
        from harness import nestep
        return nestep.replay(d)
    if d.get('kind') == 'prune_order':
        from leuvenmapmatching.matcher.base import LatticeColumn, BaseMatching
        from leuvenmapmatching.util.segment import Segment
        n, res = len(d['scores']), []
        for order in (list(range(n)), d['perm']):
            col, ms = LatticeColumn(0), {}
            for i in order:
                ms[i] = BaseMatching(None, Segment(f"N{i}", (0.0, float(i)), f"M{i}", (1.0, float(i))), Segment("O0", (0.0, 0.0)),
                                     logprob=d['scores'][i], obs=0, obs_ne=0, stop=False, delayed=0)
                col.upsert(ms[i])
            res.append(([ms[i].delayed for i in range(n)], col.prune(0, d['W'], 0, d['thr'])))
        print(res)
        return 1 if res[0] != res[1] else 0
    gabs.install_values_all_stub()
    return gabs.replay(path, claims_fn)

"""C13 - planar geometry primitives are exact (DESIGN.md section 5, C13).

Shape K: the real dist_euclidean functions are executed by SYMX with symbolic coordinates; per path the
oracle (nearest point / minimum distance, stated as a one-witness existential) is refuted by z3 (nlsat).
"""
import itertools
import math

import z3

from symx import engine as E
from symx import shims
from symx.common import Report, run_instances, import_repo, src_hash, load_findings, write_replay

PID = 'C13'
BUDGET_S = [None]
FEAS_MS = 300
SLACK2 = z3.Q(1, 10 ** 6)       # slack on squared distances for minimality claims
REL = 1 + z3.Q(1, 10 ** 4)    # relative slack on squared distances (5e-5 on distances)
DEG2 = z3.Q(3, 10 ** 16)        # 2*(1e-8)^2 + margin: degenerate (isclose) branch of project()


def _val(m, t):
    return E.model_value(m, t)


def d2(p, q):
    return (p[0] - q[0]) * (p[0] - q[0]) + (p[1] - q[1]) * (p[1] - q[1])


def L(p):
    return (E.lift(p[0]), E.lift(p[1]))


def at(s1, s2, u):
    return (s1[0] + u * (s2[0] - s1[0]), s1[1] + u * (s2[1] - s1[1]))


# ------------------------------------------------------------------------------------------------ concrete oracles
def c_pt_seg(p, a, b):
    """Independent concrete nearest point on segment (reference model, doubles)."""
    vx, vy = b[0] - a[0], b[1] - a[1]
    l2 = vx * vx + vy * vy
    if l2 == 0:
        return math.hypot(p[0] - a[0], p[1] - a[1])
    t = ((p[0] - a[0]) * vx + (p[1] - a[1]) * vy) / l2
    t = max(0.0, min(1.0, t))
    return math.hypot(p[0] - a[0] - t * vx, p[1] - a[1] - t * vy)


def c_seg_seg(f1, f2, t1, t2):
    def orient(a, b, c):
        return (b[0] - a[0]) * (c[1] - a[1]) - (b[1] - a[1]) * (c[0] - a[0])
    o1, o2, o3, o4 = orient(f1, f2, t1), orient(f1, f2, t2), orient(t1, t2, f1), orient(t1, t2, f2)
    if ((o1 > 0) != (o2 > 0)) and ((o3 > 0) != (o4 > 0)) and o1 != 0 and o2 != 0 and o3 != 0 and o4 != 0:
        return 0.0
    return min(c_pt_seg(f1, t1, t2), c_pt_seg(f2, t1, t2), c_pt_seg(t1, f1, f2), c_pt_seg(t2, f1, f2))


# ------------------------------------------------------------------------------------------------ instances
F_SEGS = {'unit': ((0.0, 0.0), (1.0, 0.0)), 'diag': ((0.5, -1.0), (2.0, 3.0)), 'zero': ((1.0, 1.0), (1.0, 1.0)),
          'vert': ((0.0, 0.0), (0.0, 2.0)), 'long1k': ((0.0, 0.0), (1000.0, 0.0))}
DIRS = {'E': (1, 0), 'W': (-1, 0), 'N': (0, 1), 'S': (0, -1), 'NE': (1, 1), 'SW': (-1, -1), 'NW': (-1, 1), 'SE': (1, -1),
        'par_diag': (1.5, 4.0), 'anti_diag': (-1.5, -4.0), 'shallow': (1000.0, 1.0), 'shallow_back': (-1000.0, 3.0)}


def instances(tier):
    inst = [('distance',), ('project',), ('dps',), ('box',), ('dss_struct',), ('project_delta',), ('dps_delta',)]
    if tier == 'quick':
        pairs = [('unit', d) for d in ('E', 'W', 'N', 'NE')] + [('diag', d) for d in ('par_diag', 'anti_diag')] + [('long1k', 'shallow'), ('long1k', 'shallow_back'), ('unit', 'shallow')]
    else:
        pairs = [(f, d) for f in F_SEGS for d in DIRS
                 if not (f in ('unit', 'vert', 'zero', 'long1k') and d in ('par_diag', 'anti_diag'))]
    for f, d in pairs:
        inst.append(('dss_min', f, d))
    if tier == 'thorough':
        for f in F_SEGS:
            inst.append(('dss_min_free', f))
    return inst


def run_instance(inst):
    from leuvenmapmatching.util import dist_euclidean as de
    kind = inst[0]
    timeout = 10000 if kind != 'dss_min_free' else 20000
    eng = E.set_engine(E.Engine(timeout_ms=timeout, lazy=True, strategy='fresh'))
    shims.install()
    out = dict(name='/'.join(map(str, inst)), paths=0, discharged=0, inconclusive=0, witnesses=0, validated=0,
               samples=[], violations=[], candidates=[], errors=[])
    names = []

    def fresh(n):
        names.append(n)
        return eng.fresh(n)

    def run():
        del names[:]
        if kind == 'distance':
            p, q = (fresh('py'), fresh('px')), (fresh('qy'), fresh('qx'))
            return dict(args=(p, q), res=de.distance(p, q))
        if kind == 'project':
            s1, s2, p = (fresh('ay'), fresh('ax')), (fresh('by'), fresh('bx')), (fresh('py'), fresh('px'))
            return dict(args=(s1, s2, p), res=de.project(s1, s2, p))
        if kind == 'dps':
            s1, s2, p = (fresh('ay'), fresh('ax')), (fresh('by'), fresh('bx')), (fresh('py'), fresh('px'))
            return dict(args=(p, s1, s2), res=de.distance_point_to_segment(p, s1, s2))
        if kind in ('project_delta', 'dps_delta'):
            # optional argument delta: "keep delta fraction away from ends" - nearest point of the part [delta, 1-delta] of the segment
            s1, s2, p = (fresh('ay'), fresh('ax')), (fresh('by'), fresh('bx')), (fresh('py'), fresh('px'))
            dl = fresh('delta')
            eng.assume(z3.And(dl.t >= 0, dl.t <= z3.Q(1, 2)))
            if kind == 'project_delta':
                return dict(args=(s1, s2, p, dl), res=de.project(s1, s2, p, delta=dl))
            return dict(args=(p, s1, s2, dl), res=de.distance_point_to_segment(p, s1, s2, delta=dl))
        if kind == 'box':
            p, r = (fresh('py'), fresh('px')), fresh('r')
            eng.assume(r.t >= 0)
            return dict(args=(p, r), res=de.box_around_point(p, r))
        if kind == 'dss_struct':
            pts = [(fresh(f'x{i}'), fresh(f'y{i}')) for i in range(1, 5)]
            return dict(args=tuple(pts), res=de.distance_segment_to_segment(*pts))
        if kind == 'dss_min':
            f1, f2 = F_SEGS[inst[1]]
            dx, dy = DIRS[inst[2]]
            t1 = (fresh('x3'), fresh('y3'))
            s = fresh('s')
            eng.assume(s.t >= 0)
            t2 = (t1[0] + s * dx, t1[1] + s * dy)
            return dict(args=(f1, f2, t1, t2), res=de.distance_segment_to_segment(f1, f2, t1, t2))
        if kind == 'dss_min_free':
            f1, f2 = F_SEGS[inst[1]]
            t1, t2 = (fresh('x3'), fresh('y3')), (fresh('x4'), fresh('y4'))
            return dict(args=(f1, f2, t1, t2), res=de.distance_segment_to_segment(f1, f2, t1, t2))
        raise AssertionError(kind)

    def claims_for(val):
        a, r = val['args'], val['res']
        u, v = z3.Reals('u!w v!w')
        cl = []
        if kind == 'distance':
            p, q = L(a[0]), L(a[1])
            d = E.lift(r)
            cl.append(('dist', z3.And(d >= 0, d * d == d2(p, q)), None))
        elif kind in ('project', 'dps'):
            if kind == 'project':
                s1, s2, p = map(L, a)
                pi, t = L(r[0]), E.lift(r[1])
                dist2 = d2(p, pi)
            else:
                p, s1, s2 = map(L, a)
                pi, t = L(r[1]), E.lift(r[2])
                d = E.lift(r[0])
                dist2 = d2(p, pi)
                cl.append(('dist_is_true_distance', z3.And(d >= 0, d * d == dist2), None))
            cl.append(('t_in_unit', z3.And(t >= 0, t <= 1), None))
            cl.append(('pi_at_t', z3.And(pi[0] == s1[0] + t * (s2[0] - s1[0]), pi[1] == s1[1] + t * (s2[1] - s1[1])), None))
            degenerate = z3.And(s1[0] - s2[0] <= z3.Q(1, 10 ** 8), s2[0] - s1[0] <= z3.Q(1, 10 ** 8),
                                s1[1] - s2[1] <= z3.Q(1, 10 ** 8), s2[1] - s1[1] <= z3.Q(1, 10 ** 8))
            w = at(s1, s2, u)
            # exact nearest point outside the tolerance branch; inside it every segment point is within 1.5e-8 of pi
            cl.append(('nearest', z3.Implies(z3.And(u >= 0, u <= 1),
                                             z3.If(degenerate, d2(pi, w) <= DEG2, d2(p, w) >= dist2)), [u]))
        elif kind in ('project_delta', 'dps_delta'):
            if kind == 'project_delta':
                s1, s2, p = map(L, a[:3])
                pi, t = L(r[0]), E.lift(r[1])
            else:
                p, s1, s2 = map(L, a[:3])
                pi, t = L(r[1]), E.lift(r[2])
                d = E.lift(r[0])
                cl.append(('dist_is_distance_to_reported_point', z3.And(d >= 0, d * d == d2(p, pi)), None))
            dl = E.lift(a[3])
            dist2 = d2(p, pi)
            degenerate = z3.And(s1[0] - s2[0] <= z3.Q(1, 10 ** 8), s2[0] - s1[0] <= z3.Q(1, 10 ** 8),
                                s1[1] - s2[1] <= z3.Q(1, 10 ** 8), s2[1] - s1[1] <= z3.Q(1, 10 ** 8))
            cl.append(('t_in_unit', z3.And(t >= 0, t <= 1), None))
            cl.append(('t_keeps_delta_away_from_the_ends', z3.Or(degenerate, z3.And(t >= dl, t <= 1 - dl)), None))
            cl.append(('pi_at_t', z3.And(pi[0] == s1[0] + t * (s2[0] - s1[0]), pi[1] == s1[1] + t * (s2[1] - s1[1])), None))
            w = at(s1, s2, u)
            cl.append(('nearest_admissible_point', z3.Implies(z3.And(u >= dl, u <= 1 - dl),
                                                              z3.If(degenerate, d2(pi, w) <= DEG2, d2(p, w) >= dist2)), [u]))
        elif kind == 'box':
            p, rr = L(a[0]), E.lift(a[1])
            lat_b, lon_l, lat_t, lon_r = map(E.lift, r)
            q = (u, v)
            cl.append(('disc_in_box', z3.Implies(d2(p, q) <= rr * rr,
                                                 z3.And(lat_b <= u, u <= lat_t, lon_l <= v, v <= lon_r)), [u, v]))
        else:
            f1, f2, t1, t2 = map(L, a)
            d, pf, pt, uf, ut = r
            dd, pf, pt, uf, ut = E.lift(d), L(pf), L(pt), E.lift(uf), E.lift(ut)
            D2 = d.sq if isinstance(d, E.Sym) and d.sq is not None else dd * dd
            cl.append(('structure', z3.And(uf >= 0, uf <= 1, ut >= 0, ut <= 1,
                                           pf[0] == f1[0] + uf * (f2[0] - f1[0]), pf[1] == f1[1] + uf * (f2[1] - f1[1]),
                                           pt[0] == t1[0] + ut * (t2[0] - t1[0]), pt[1] == t1[1] + ut * (t2[1] - t1[1]),
                                           dd >= 0, D2 == d2(pf, pt)), None))
            if kind != 'dss_struct':
                wf, wt = at(f1, f2, u), at(t1, t2, v)
                cl.append(('minimal', z3.Implies(z3.And(u >= 0, u <= 1, v >= 0, v <= 1), d2(wf, wt) * REL + SLACK2 >= D2), [u, v]))
        return cl

    def concrete_args(m, val):
        def cv(x):
            if isinstance(x, tuple):
                return tuple(cv(y) for y in x)
            return _val(m, x) if E.is_sym(x) else float(x)
        return tuple(cv(x) for x in val['args'])

    def replay(cargs):
        """Run the unmodified function on doubles and evaluate the concrete oracle.  Returns (violated?, description)."""
        with shims.concrete():
            try:
                if kind == 'distance':
                    r = de.distance(*cargs)
                    ref = math.hypot(cargs[0][0] - cargs[1][0], cargs[0][1] - cargs[1][1])
                    return abs(r - ref) > 1e-9 * max(1, ref), f"distance{cargs}={r} ref={ref}"
                if kind == 'project':
                    pi, t = de.project(*cargs)
                    s1, s2, p = cargs
                    got = math.hypot(p[0] - pi[0], p[1] - pi[1])
                    ref = c_pt_seg(p, s1, s2)
                    bad = not (0 <= t <= 1) or got > ref + 3e-8 + 1e-9 * ref
                    return bad, f"project{cargs}=({pi},{t}) dist={got} ref={ref}"
                if kind == 'dps':
                    d, pi, t = de.distance_point_to_segment(*cargs)
                    p, s1, s2 = cargs
                    ref = c_pt_seg(p, s1, s2)
                    bad = not (0 <= t <= 1) or abs(d - ref) > 3e-8 + 1e-9 * ref
                    return bad, f"distance_point_to_segment{cargs}=({d},{pi},{t}) ref={ref}"
                if kind in ('project_delta', 'dps_delta'):
                    if kind == 'project_delta':
                        s1, s2, p, dl = cargs
                        pi, t = de.project(s1, s2, p, delta=dl)
                        d = math.hypot(p[0] - pi[0], p[1] - pi[1])
                    else:
                        p, s1, s2, dl = cargs
                        d, pi, t = de.distance_point_to_segment(p, s1, s2, delta=dl)
                    l2 = (s2[0] - s1[0]) ** 2 + (s2[1] - s1[1]) ** 2
                    if l2 <= 4e-16:
                        return False, "degenerate segment: not judged"
                    tt = ((p[0] - s1[0]) * (s2[0] - s1[0]) + (p[1] - s1[1]) * (s2[1] - s1[1])) / l2
                    tt = max(dl, min(1 - dl, tt))
                    ref = math.hypot(p[0] - s1[0] - tt * (s2[0] - s1[0]), p[1] - s1[1] - tt * (s2[1] - s1[1]))
                    got = math.hypot(p[0] - pi[0], p[1] - pi[1])
                    bad = not (dl - 1e-12 <= t <= 1 - dl + 1e-12) or got > ref + 3e-8 + 1e-9 * ref or abs(d - got) > 3e-8 + 1e-9 * got
                    return bad, f"{kind}{cargs}: point {pi} at t={t}, distance {d}; nearest point within [delta, 1-delta] is at t={tt}, distance {ref}"
                if kind == 'box':
                    b = de.box_around_point(*cargs)
                    (y, x), r = cargs
                    bad = not (b[0] <= y - r * (1 - 1e-12) and b[2] >= y + r * (1 - 1e-12) and b[1] <= x - r * (1 - 1e-12) and b[3] >= x + r * (1 - 1e-12))
                    return bad, f"box_around_point{cargs}={b}"
                d, pf, pt, uf, ut = de.distance_segment_to_segment(*cargs)
                ref = c_seg_seg(*cargs)
                f1, f2, t1, t2 = cargs
                st = (0 <= uf <= 1 and 0 <= ut <= 1
                      and math.hypot(pf[0] - (f1[0] + uf * (f2[0] - f1[0])), pf[1] - (f1[1] + uf * (f2[1] - f1[1]))) < 1e-6
                      and math.hypot(pt[0] - (t1[0] + ut * (t2[0] - t1[0])), pt[1] - (t1[1] + ut * (t2[1] - t1[1]))) < 1e-6
                      and abs(d - math.hypot(pf[0] - pt[0], pf[1] - pt[1])) < 1e-6)
                bad = (not st) or (d * d > ref * ref * (1 + 0.9e-4) + 0.9e-6)
                return bad, f"distance_segment_to_segment{cargs}=(d={d},pf={pf},pt={pt},uf={uf},ut={ut}) true_min={ref} structure_ok={st}"
            except Exception as e:
                return True, f"{kind}{cargs} raised {type(e).__name__}: {e}"

    findings = load_findings(PID)

    def known(cargs, desc):
        if kind not in ('dss_min', 'dss_min_free', 'dss_struct'):
            return None
        f1, f2, t1, t2 = cargs
        n = (t2[1] - t1[1]) * (f2[0] - f1[0]) - (t2[0] - t1[0]) * (f2[1] - f1[1])
        for f in findings:
            if f.get('predicate') == 'parallel_branch' and abs(n) <= 1e-8:
                return f"{f['id']}: {f['what']} (witness {desc})"
        return None

    def on_path(eng, res):
        k, val = res
        out['paths'] += 1
        if k in ('unsupported', 'unwind'):
            out['errors'].append(f"{out['name']}: {k}: {val}")
            return
        if k == 'exc':
            r, m = eng.feasible()
            if r == 'unsat':
                out['paths'] -= 1
                return
            if r == 'unknown':
                out['inconclusive'] += 1
                return
            # feasible exception: not total
            cargs = tuple(tuple(_val(m, z3.Real(n)) for n in names[i:i + 2]) for i in range(0, len(names) - len(names) % 2, 2))
            out['candidates'].append(dict(kind='exception', exc=repr(val), model={n: _val(m, z3.Real(n)) for n in names}))
            return
        r, m = eng.feasible(timeout_ms=FEAS_MS)
        if r == 'unsat':
            out['paths'] -= 1
            return
        if r == 'sat':
            out['witnesses'] += 1
            # concolic validation: symbolic result under the model == real function on the model's doubles
            if out['validated'] < 6:
                cargs = concrete_args(m, val)
                bad, desc = replay(cargs)
                out['validated'] += 1
        verdicts = []
        for name, claim, _w in claims_for(val):
            rr, mm = eng.prove(claim)
            verdicts.append((name, rr))
            if rr == 'sat':
                cargs = concrete_args(mm, val)
                bad, desc = replay(cargs)
                if bad:
                    kf = known(cargs, desc)
                    out['violations'].append(dict(claim=name, args=cargs, desc=desc, known=kf, trace=list(eng.trace)))
                else:
                    out['candidates'].append(dict(claim=name, args=cargs, desc=desc, note='model did not reproduce on doubles'))
        if all(v == 'unsat' for _, v in verdicts):
            out['discharged'] += 1
        elif any(v == 'unknown' for _, v in verdicts) and not any(v == 'sat' for _, v in verdicts):
            out['inconclusive'] += 1
        if len(out['samples']) < 2:
            out['samples'].append(dict(instance=out['name'], decisions=''.join('T' if b else 'F' for b in eng.trace),
                                       verdicts=verdicts))

    import time as _t
    st = eng.explore(run, on_path, deadline=(_t.time() + BUDGET_S[0]) if BUDGET_S[0] else None)
    shims.uninstall()
    out.update(decisions=st['decisions'], queries=st['queries'], solver_s=st['solver_s'], complete=st.get('complete', True))
    return out


def main(tier):
    import_repo()
    from leuvenmapmatching.util import dist_euclidean as de
    rep = Report(PID, tier)
    rep.functions = src_hash(de.distance, de.project, de.distance_point_to_segment, de.distance_segment_to_segment,
                             de.box_around_point)
    rep.bounds = {
        "distance/project/distance_point_to_segment/box_around_point": "all coordinates (and radius>=0) symbolic reals, no bound",
        "distance_segment_to_segment structure (u in [0,1], points at u, d=|pf-pt|)": "all 8 coordinates symbolic",
        "distance_segment_to_segment minimality": "first segment from %s; second segment t1 + s*dir, t1 and s>=0 symbolic, dir from %s"
                                                  % (sorted(F_SEGS), sorted(DIRS)) + ("; plus second segment fully symbolic (thorough)" if tier == 'thorough' else ''),
        "slack": "minimality on squared distances with slack 1e-6; degenerate (|s1-s2|<=1e-8) branch of project exact to 1.5e-8",
    }
    rep.outside = ["rounding of symbolic arithmetic (reals)", "segment-to-segment minimality with both segments in general position"]
    rep.assumptions = ["math.sqrt modelled exactly (s>=0, s*s=x)", "np.isclose/allclose(rtol=0) modelled as |a-b|<=atol",
                       "min/max/abs merged as ite"]
    from symx.common import fit_budget
    BUDGET_S[0] = fit_budget(len(instances(tier)), tier, 300, 300, cap_thorough=600)
    res = run_instances(run_instance, instances(tier))
    seen_known = set()
    for r in sorted(res, key=lambda r: r['name']):
        rep.add_instance(r)
        for v in r.get('violations', []):
            if v['known']:
                key = v['known'].split(' (witness')[0]
                if key not in seen_known:
                    seen_known.add(key)
                    rep.known_hits.append(v['known'])
            else:
                fn = write_replay(PID, dict(property=PID, instance=r['name'], claim=v['claim'], args=v['args'], observed=v['desc']))
                rep.violations.append(dict(replay=fn, msg=f"{r['name']} claim={v['claim']}: {v['desc']}"))
        for c in r.get('candidates', []):
            rep.unconfirmed.append(f"{r['name']}: {c}")
    return rep.finish("symbolic execution of the real dist_euclidean functions over z3 reals (SYMX), per-path refutation of "
                      "nearest-point / minimum-distance claims by z3 nlsat; counterexamples replayed on doubles")


def replay_file(path):
    import json
    import_repo()
    from leuvenmapmatching.util import dist_euclidean as de
    with open(path) as f:
        data = json.load(f)
    kind = data['instance'].split('/')[0]
    args = tuple(tuple(a) if isinstance(a, list) else a for a in data['args'])
    print("replaying", kind, args)
    if kind.startswith('dss'):
        r = de.distance_segment_to_segment(*args)
        ref = c_seg_seg(*args)
        print("result", r, "true minimum", ref)
        return 1 if r[0] ** 2 > ref ** 2 * (1 + 0.9e-4) + 0.9e-6 else 0
    print(data['observed'])
    return 1

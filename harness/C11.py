"""C11 - spatial queries return exactly what lies within the radius (DESIGN.md section 5, C11).

K/B (planar metric, real kernels through SYMX): InMemMap.nodes_closeto / edges_closeto (linear scan; the rtree package is not
installed) on maps of <=3 nodes with symbolic coordinates, symbolic query point and radius.  Oracle: full scan in the solver -
element i is in the result iff its independently computed distance is below the radius; reported distance / projection /
relative position are the true nearest point; result sorted; max_elmt prefix.
SqliteMap runs through the SQL shim (symx/sqlshim.py) with the float32 R-tree contract.
"""
import itertools
import math

import z3

from symx import engine as E
from symx import shims, runner
from symx.common import Report, run_instances, import_repo, src_hash, write_replay, load_findings

PID = 'C11'
NRA_MS = [10000]
EPS8 = z3.Q(1, 10 ** 8)
DEG2 = z3.Q(3, 10 ** 16)
RND = z3.Q(1, 10 ** 9)      # relative slack for double rounding of the concrete layout constants
TINY = z3.Q(1, 10 ** 24)
BAND = z3.Q(1, 10 ** 7)      # band on squared distances around the radius for the degenerate-edge tolerance


def d2(p, q):
    return (p[0] - q[0]) * (p[0] - q[0]) + (p[1] - q[1]) * (p[1] - q[1])


def Lp(p):
    return (E.lift(p[0]), E.lift(p[1]))


def d2_closed(p, a, b):
    """squared distance point - segment by the clamped-projection closed form (z3 term with ite); degenerate segments -> |p-a|^2."""
    vx, vy = b[0] - a[0], b[1] - a[1]
    l2 = vx * vx + vy * vy
    t = ((p[0] - a[0]) * vx + (p[1] - a[1]) * vy) / z3.If(l2 == 0, 1, l2)
    t = z3.If(t < 0, 0, z3.If(t > 1, 1, t))
    t = z3.If(l2 == 0, 0, t)
    q = (a[0] + t * vx, a[1] + t * vy)
    return d2(p, q)


def at(a, b, u):
    return (a[0] + u * (b[0] - a[0]), a[1] + u * (b[1] - a[1]))


SHAPES = {
    'n1': ({1: []}, 'nodes'),
    'n2': ({1: [], 2: []}, 'nodes'),
    'n3': ({1: [], 2: [], 3: []}, 'nodes'),
    'e1': ({1: [2], 2: []}, 'edges'),
    'e2_bidir': ({1: [2], 2: [1]}, 'edges'),
    'e2_fan': ({1: [2, 3], 2: [], 3: []}, 'edges'),
    'e1_selfloop': ({1: [1, 2], 2: []}, 'edges'),
    'e3_fan': ({1: [2, 3, 4], 2: [], 3: [], 4: []}, 'edges'),
}


def same_pt(p, q):
    def sn(x, y):
        if isinstance(x, E.Sym) or isinstance(y, E.Sym):
            return isinstance(x, E.Sym) and isinstance(y, E.Sym) and x.t.get_id() == y.t.get_id()
        return x == y
    return sn(p[0], q[0]) and sn(p[1], q[1])


def c_pt_seg(p, a, b):
    vx, vy = b[0] - a[0], b[1] - a[1]
    l2 = vx * vx + vy * vy
    if l2 == 0:
        return math.hypot(p[0] - a[0], p[1] - a[1])
    t = max(0.0, min(1.0, ((p[0] - a[0]) * vx + (p[1] - a[1]) * vy) / l2))
    return math.hypot(p[0] - a[0] - t * vx, p[1] - a[1] - t * vy)


def concrete_oracle(kind, graph, coords, loc, r, max_elmt, res):
    """Full scan on doubles; returns None or a description (1e-7 relative band around the radius is not judged)."""
    exp = []
    if kind == 'nodes':
        for n in graph:
            exp.append((math.hypot(loc[0] - coords[n][0], loc[1] - coords[n][1]), (n,)))
    else:
        for a in graph:
            for b in graph[a]:
                if a != b:
                    exp.append((c_pt_seg(loc, coords[a], coords[b]), (a, b)))
    got = {}
    for row in res:
        key = (row[1],) if kind == 'nodes' else (row[1], row[3])
        got[key] = row[0]
    band = 1e-7 * max(1.0, r) + 3e-8
    if max_elmt is None:
        for d, key in exp:
            if d < r - band and key not in got:
                return f"{key} at distance {d} < radius {r} is missing from the result"
            if d > r + band and key in got:
                return f"{key} at distance {d} >= radius {r} is in the result"
    for key, d in got.items():
        true = dict((k, dd) for dd, k in exp).get(key)
        if true is None:
            return f"{key} is not an element of the map"
        if abs(d - true) > 3e-8 + 1e-9 * true:
            return f"{key}: reported distance {d}, true distance {true}"
    ds = [row[0] for row in res]
    if any(a > b + 1e-12 for a, b in zip(ds, ds[1:])):
        return f"result not sorted by distance: {ds}"
    if max_elmt is not None:
        if len(res) > max_elmt:
            return f"more than max_elmt={max_elmt} results"
        inside = sorted(d for d, _ in exp if d < r - band)
        if len(res) < min(max_elmt, len(inside)):
            return f"fewer results ({len(res)}) than elements within the radius ({len(inside)}) and max_elmt={max_elmt}"
        for k, d in enumerate(ds):
            if k < len(inside) and d > inside[k] + band:
                return f"truncated result is not the {max_elmt} nearest: {ds} vs {inside}"
    return None


LAYOUTS = {   # concrete coordinates (y, x) for nodes 1..3; the query point and the radius stay symbolic
    'unit': {1: (0.0, 0.0), 2: (0.0, 1.0), 3: (1.0, 0.5), 4: (-1.0, 1.0)},
    'long': {1: (0.0, -10.0), 2: (0.0, 10.0), 3: (3.0, 0.0), 4: (-4.0, 5.0)},
    'diag': {1: (0.5, -1.0), 2: (2.0, 3.0), 3: (-1.0, 1.0)},
    'zero': {1: (1.0, 1.0), 2: (1.0, 1.0), 3: (1.0, 2.0)},
    'fan3': {1: (0.0, 0.0), 2: (5.0, 5.0), 3: (0.0, 1.0), 4: (1.0, 1.0)},
    'star3': {1: (0.0, 0.0), 2: (0.0, 4.0), 3: (3.0, -2.0), 4: (-3.0, -2.0)},     # three edges in three directions: every distance order occurs
    'tiny': {1: (50.87, 4.7), 2: (50.87, 4.70008), 3: (50.87003, 4.7)},
    'metres1e7': {1: (5650000.3, 10000000.7), 2: (5650080.4, 10000060.2), 3: (5650000.6, 10000100.9)},
}


def make_map(backend, graph, coords, d=None, tag=0):
    """InMemMap or SqliteMap (labels are ints) holding the given graph."""
    import contextlib
    import io
    from leuvenmapmatching.map.inmem import InMemMap
    if backend == 'inmem':
        return InMemMap("m", graph={n: (coords[n], list(graph[n])) for n in graph}, use_latlon=False)
    from leuvenmapmatching.map.sqlite import SqliteMap
    with contextlib.redirect_stdout(io.StringIO()):
        m = SqliteMap(f"c11_{tag}", use_latlon=False, dir=d)
        for n in graph:
            m.add_node(n, coords[n])
        for a in graph:
            for b in graph[a]:
                if a != b:
                    m.add_edge(a, b)
    return m


def query(m, kind, loc, r, max_elmt):
    import contextlib
    import io
    with contextlib.redirect_stdout(io.StringIO()):
        return m.nodes_closeto(loc, max_dist=r, max_elmt=max_elmt) if kind == 'nodes' else m.edges_closeto(loc, max_dist=r, max_elmt=max_elmt)


LATLON_GRID = [   # (node coordinates, query, radius in metres): nearest in metres differs from nearest in degrees away from the equator
    ({1: (60.0, 10.0015), 2: (60.0010, 10.0), 3: (60.0, 10.0040)}, (60.0, 10.0), 300.0),
    ({1: (60.0010, 10.0), 2: (60.0, 10.0015), 3: (59.9980, 10.0)}, (60.0, 10.0), 300.0),
    ({1: (-45.0, 170.0012), 2: (-45.0009, 170.0), 3: (-45.0, 169.9970)}, (-45.0, 170.0), 500.0),
    ({1: (0.0, 0.0010), 2: (0.0012, 0.0), 3: (0.0, -0.0030)}, (0.0, 0.0), 400.0),
    ({1: (50.87, 4.7010), 2: (50.8705, 4.70), 3: (50.88, 4.70)}, (50.87, 4.70), 100.0),
    ({1: (60.0016, 10.0), 2: (60.0, 10.0020), 3: (60.0, 10.0018)}, (60.0, 10.0), 300.0),
    ({1: (89.95, 10.0), 2: (89.9, 100.0), 3: (89.8, -120.0)}, (89.9, 10.0), 50000.0),      # the search circle contains the pole
]


def concrete_latlon(graph, cc, loc, r, max_elmt):
    """SqliteMap(use_latlon=True).nodes_closeto on doubles with the real sqlite3; oracle: full scan with the map's own distance."""
    import contextlib
    import io
    import shutil
    from harness import sqlcommon
    from leuvenmapmatching.map.sqlite import SqliteMap
    from leuvenmapmatching.util import dist_latlon as dl
    d = sqlcommon.scratch_dir()
    try:
        with contextlib.redirect_stdout(io.StringIO()):
            m = SqliteMap("c11_latlon_replay", use_latlon=True, dir=d)
            for n in graph:
                m.add_node(n, cc[n])
        try:
            res = m.nodes_closeto(loc, max_dist=r, max_elmt=max_elmt)
        except Exception as e:
            return f"raised {e!r}"
        finally:
            m.db.close()
        inside = sorted((dl.distance(loc, cc[n]), n) for n in graph if dl.distance(loc, cc[n]) < r)
        want = inside if max_elmt is None else inside[:max_elmt]
        got = [(row[0], row[1]) for row in res]
        if [n for _, n in got] != [n for _, n in want] and [round(x, 6) for x, _ in got] != [round(x, 6) for x, _ in want]:
            return f"returned {got}, but the nodes within the radius are {inside}"
        return None
    finally:
        shutil.rmtree(d, ignore_errors=True)


def run_latlon_topk(inst):
    """SqliteMap(use_latlon=True).nodes_closeto with max_elmt.  The map's geodesic primitives are replaced by symbolic stand-ins
    (distance: one fresh value >= 0 per point pair; box_around_point: a fresh box containing the point - their correctness is C14's
    subject), so what is decided is the ORDER logic of the query on a metric that is NOT the planar one the SQL columns suggest: the
    returned rows are sorted by the map's distance, lie within the radius, are at most max_elmt, and no node that passed the box filter
    and lies within the radius is nearer than a returned one while being omitted.  Counterexamples are confirmed on a grid of concrete
    lat-lon configurations with the real sqlite3 and the real trigonometry."""
    import shutil
    from symx import sqlshim
    from harness import sqlcommon
    from leuvenmapmatching.map.sqlite import SqliteMap
    import contextlib
    import io
    _, n_nodes, budget, max_elmt = inst[:4]          # (kind, nodes, budget, max_elmt): main() inserts the budget at position 2
    graph = {i: [] for i in range(1, n_nodes + 1)}
    shims.install()
    sqlcommon.install()
    d = sqlcommon.scratch_dir()
    cnt = [0]
    name = f"sqlite latlon nodes n={n_nodes} max_elmt={max_elmt} (stand-ins for distance and box)"

    def tid(x):
        return x.t.get_id() if E.is_sym(x) else repr(x)

    def scenario():
        eng = E.get_engine()
        memo = {}
        sqlshim.reset()
        cnt[0] += 1
        coords = {n: (eng.fresh(f"lat{n}"), eng.fresh(f"lon{n}")) for n in graph}
        loc = (eng.fresh("qlat"), eng.fresh("qlon"))
        r = eng.fresh("r")
        eng.assume(r.t > 0)
        with contextlib.redirect_stdout(io.StringIO()):
            m = SqliteMap(f"c11ll_{cnt[0]}", use_latlon=True, dir=d)
            for n in graph:
                m.add_node(n, coords[n])

        def distance(p1, p2):
            k = ('d', tid(p1[0]), tid(p1[1]), tid(p2[0]), tid(p2[1]))
            if k not in memo:
                memo[k] = eng.fresh(f"D{len(memo)}")
                eng.assume(memo[k].t >= 0)
            return memo[k]

        def box(p, dist_):
            k = ('b', tid(p[0]), tid(p[1]), tid(dist_))
            if k not in memo:
                b = tuple(eng.fresh(f"box{len(memo)}_{i}") for i in range(4))
                eng.assume(z3.And(b[0].t <= E.lift(p[0]), E.lift(p[0]) <= b[2].t, b[1].t <= E.lift(p[1]), E.lift(p[1]) <= b[3].t))
                memo[k] = b
            return memo[k]
        m.distance, m.box_around_point = distance, box
        res = m.nodes_closeto(loc, max_dist=r, max_elmt=max_elmt)
        dist = {n: distance(loc, coords[n]) for n in graph}
        bb = box(loc, r)
        return dict(coords=coords, loc=loc, r=r, res=res, dist=dist, bb=bb)

    def claims(eng, v):
        L = E.lift
        res, dist, r, bb, coords = v['res'], v['dist'], L(v['r']), v['bb'], v['coords']
        got = [row[1] for row in res]
        cl = [('no_duplicates_and_only_map_nodes', z3.BoolVal(len(set(got)) == len(got) and all(g in graph for g in got))),
              ('at_most_max_elmt', z3.BoolVal(max_elmt is None or len(got) <= max_elmt))]
        for row in res:
            cl.append((f'distance_of_{row[1]}_is_the_map_distance_and_within_radius', z3.And(L(row[0]) == L(dist[row[1]]), L(row[0]) < r)))
        cl.append(('sorted_by_distance', z3.And(*[L(a[0]) <= L(b[0]) for a, b in zip(res, res[1:])]) if len(res) > 1 else z3.BoolVal(True)))
        full = max_elmt is not None and len(got) == max_elmt
        for n in graph:
            if n in got:
                continue
            in_box = z3.And(L(coords[n][0]) >= L(bb[0]), L(coords[n][0]) <= L(bb[2]), L(coords[n][1]) >= L(bb[1]), L(coords[n][1]) <= L(bb[3]))
            farther = z3.And(*[L(dist[n]) >= L(dist[k]) for k in got]) if full else z3.BoolVal(False)
            cl.append((f'omitted_{n}_is_outside_or_not_among_the_nearest', z3.Or(z3.Not(in_box), L(dist[n]) >= r, farther)))
        return cl

    def confirm(eng, model, v, cname):
        if not isinstance(v, dict) and isinstance(v, sqlshim.SqlShimError):
            raise RuntimeError(f"the SQL stand-in cannot interpret a statement issued by the code under test ({v}); this check cannot decide this tree")
        with shims.concrete():
            sqlcommon.uninstall()
            try:
                for cc, loc, r in LATLON_GRID:
                    cc = {n: cc[n] for n in graph}
                    bad = concrete_latlon(graph, cc, loc, r, max_elmt)
                    if bad:
                        return dict(desc=f"SqliteMap(use_latlon=True).nodes_closeto(loc={loc}, max_dist={r}, max_elmt={max_elmt}) on {cc}: {bad}",
                                    kind='latlon_topk', coords={str(k): list(p) for k, p in cc.items()}, loc=list(loc), radius=r, max_elmt=max_elmt, n=n_nodes)
            finally:
                sqlcommon.install()
        return None

    try:
        out = runner.explore(name, runner.lra_engine(8000), scenario, claims, confirm=confirm, budget_s=budget,
                             witness=lambda eng, v: [f'latlon_result_size_{len(v["res"])}'])
    finally:
        sqlcommon.uninstall()
        shims.uninstall()
        shutil.rmtree(d, ignore_errors=True)
    return out

LATLON_EDGE_GRID = [   # star of three edges out of node 1 (so the start node is always inside the box), query, radius in metres
    ({1: (60.0, 10.0), 2: (60.0020, 10.0), 3: (60.0, 10.0040), 4: (59.9990, 9.9990)}, (60.0004, 10.0012), 400.0),
    ({1: (-45.0, 170.0), 2: (-45.0, 170.0030), 3: (-45.0020, 170.0), 4: (-44.9990, 169.9990)}, (-45.0006, 170.0008), 500.0),
    ({1: (0.0, 0.0), 2: (0.0015, 0.0), 3: (0.0, 0.0030), 4: (-0.0010, -0.0010)}, (0.0003, 0.0009), 300.0),
    ({1: (50.87, 4.70), 2: (50.8710, 4.70), 3: (50.87, 4.7030), 4: (50.8690, 4.6990)}, (50.8702, 4.7004), 60.0),
    ({1: (89.9, 10.0), 2: (89.95, 10.0), 3: (89.9, 100.0), 4: (89.8, -120.0)}, (89.92, 20.0), 50000.0),      # the search circle contains the pole
]


def concrete_latlon_inmem(kind, graph, cc, loc, r, max_elmt):
    """InMemMap(use_latlon=True) on doubles with the real trigonometry; oracle: full scan with dist_latlon's own functions."""
    from leuvenmapmatching.map.inmem import InMemMap
    from leuvenmapmatching.util import dist_latlon as dl
    m = InMemMap("c11_latlon_replay", graph={n: (cc[n], list(graph[n])) for n in graph}, use_latlon=True)
    try:
        res = query(m, kind, loc, r, max_elmt)
    except Exception as e:
        return f"raised {e!r}"
    if kind == 'nodes':
        inside = sorted((dl.distance(loc, cc[n]), (n,)) for n in graph if dl.distance(loc, cc[n]) < r)
        got = [(row[0], (row[1],)) for row in res]
    else:
        inside = sorted((dl.distance_point_to_segment(loc, cc[a], cc[b])[0], (a, b)) for a in graph for b in graph[a] if a != b)
        inside = [x for x in inside if x[0] < r]
        got = [(row[0], (row[1], row[3])) for row in res]
    want = inside if max_elmt is None else inside[:max_elmt]
    if [k for _, k in got] != [k for _, k in want] and [round(x, 6) for x, _ in got] != [round(x, 6) for x, _ in want]:
        return f"returned {got}, but the elements within the radius are {inside}"
    return None


def run_latlon_inmem(inst):
    """InMemMap(use_latlon=True).nodes_closeto / edges_closeto over symbolic stand-ins for the map's geodesic primitives (distance,
    distance_point_to_segment, box_around_point: fresh values constrained only by distance >= 0, relative position in [0,1], box contains
    the point; their correctness is C14's subject).  Decides the query logic on the lat-lon metric: every returned row carries the
    primitive's own result for that element, lies within the radius, rows are sorted, at most max_elmt, and no element that passed the box
    pre-filter (nodes: the node; edges: the start node - known finding F-C11-inmem-edges-startnode-box concerns exactly that pre-filter)
    and lies within the radius is omitted unless max_elmt nearer ones were returned.  Counterexamples are confirmed on a grid of
    concrete lat-lon configurations with the real trigonometry."""
    from leuvenmapmatching.map.inmem import InMemMap
    _, kind, budget, shape, max_elmt = inst[:5]
    graph = SHAPES[shape][0]
    shims.install()
    name = f"inmem latlon {kind} {shape} max_elmt={max_elmt} (stand-ins for distance, point-to-segment and box)"

    def tid(x):
        return x.t.get_id() if E.is_sym(x) else repr(x)

    def scenario():
        eng = E.get_engine()
        memo = {}
        coords = {n: (eng.fresh(f"lat{n}"), eng.fresh(f"lon{n}")) for n in graph}
        loc = (eng.fresh("qlat"), eng.fresh("qlon"))
        r = eng.fresh("r")
        eng.assume(r.t > 0)
        m = InMemMap("c11ll", graph={n: (coords[n], list(graph[n])) for n in graph}, use_latlon=True)

        def distance(p1, p2):
            k = ('d', tid(p1[0]), tid(p1[1]), tid(p2[0]), tid(p2[1]))
            if k not in memo:
                memo[k] = eng.fresh(f"D{len(memo)}")
                eng.assume(memo[k].t >= 0)
            return memo[k]

        def dps(p, a, b, delta=0.0, constrain=True):
            k = ('s', tid(p[0]), tid(p[1]), tid(a[0]), tid(a[1]), tid(b[0]), tid(b[1]))
            if k not in memo:
                n = len(memo)
                d, t = eng.fresh(f"S{n}"), eng.fresh(f"t{n}")
                eng.assume(z3.And(d.t >= 0, t.t >= 0, t.t <= 1))
                memo[k] = (d, (eng.fresh(f"pi{n}y"), eng.fresh(f"pi{n}x")), t)
            return memo[k]

        def box(p, dist_):
            k = ('b', tid(p[0]), tid(p[1]), tid(dist_))
            if k not in memo:
                b = tuple(eng.fresh(f"box{len(memo)}_{i}") for i in range(4))
                eng.assume(z3.And(b[0].t <= E.lift(p[0]), E.lift(p[0]) <= b[2].t, b[1].t <= E.lift(p[1]), E.lift(p[1]) <= b[3].t))
                memo[k] = b
            return memo[k]
        m.distance, m.distance_point_to_segment, m.box_around_point = distance, dps, box
        res = query(m, kind, loc, r, max_elmt)
        if kind == 'nodes':
            elems = {(n,): (distance(loc, coords[n]), n) for n in graph}
        else:
            elems = {(a, b): (dps(loc, coords[a], coords[b]), a) for a in graph for b in graph[a] if a != b}
        return dict(coords=coords, loc=loc, r=r, res=res, elems=elems, bb=box(loc, r))

    def claims(eng, v):
        L = E.lift
        res, r, bb, coords, elems = v['res'], L(v['r']), v['bb'], v['coords'], v['elems']
        keyof = (lambda row: (row[1],)) if kind == 'nodes' else (lambda row: (row[1], row[3]))
        got = [keyof(row) for row in res]
        cl = [('no_duplicates_and_only_map_elements', z3.BoolVal(len(set(got)) == len(got) and all(g in elems for g in got))),
              ('at_most_max_elmt', z3.BoolVal(max_elmt is None or len(got) <= max_elmt))]
        if not all(g in elems for g in got):
            return cl
        dist = {k: (e[0] if kind == 'nodes' else e[0][0]) for k, e in elems.items()}
        for row in res:
            k = keyof(row)
            cl.append((f'distance_of_{k}_is_the_map_distance_and_within_radius', z3.And(L(row[0]) == L(dist[k]), L(row[0]) < r)))
            if kind == 'edges':
                d, pi, ti = elems[k][0]
                cl.append((f'projection_and_position_of_{k}_are_the_primitive_s', z3.BoolVal(same_pt(row[5], pi) and same_pt((row[6], 0), (ti, 0))
                                                                                            and same_pt(row[2], coords[k[0]]) and same_pt(row[4], coords[k[1]]))))
        cl.append(('sorted_by_distance', z3.And(*[L(a[0]) <= L(b[0]) for a, b in zip(res, res[1:])]) if len(res) > 1 else z3.BoolVal(True)))
        full = max_elmt is not None and len(got) == max_elmt
        for k, e in elems.items():
            if k in got:
                continue
            c = coords[e[1]]
            in_box = z3.And(L(c[0]) >= L(bb[0]), L(c[0]) <= L(bb[2]), L(c[1]) >= L(bb[1]), L(c[1]) <= L(bb[3]))
            farther = z3.And(*[L(dist[k]) >= L(dist[g]) for g in got]) if full else z3.BoolVal(False)
            cl.append((f'omitted_{k}_is_outside_or_not_among_the_nearest', z3.Or(z3.Not(in_box), L(dist[k]) >= r, farther)))
        return cl

    def confirm(eng, model, v, cname):
        with shims.concrete():
            grid = LATLON_GRID if kind == 'nodes' else LATLON_EDGE_GRID
            for cc, loc, r in grid:
                if any(n not in cc for n in graph):
                    continue
                cc = {n: cc[n] for n in graph}
                bad = concrete_latlon_inmem(kind, graph, cc, loc, r, max_elmt)
                if bad:
                    return dict(desc=f"InMemMap(use_latlon=True).{kind}_closeto(loc={loc}, max_dist={r}, max_elmt={max_elmt}) on {cc}: {bad}",
                                kind='latlon_inmem', query=kind, shape=shape, coords={str(k): list(p) for k, p in cc.items()}, loc=list(loc), radius=r, max_elmt=max_elmt)
        return None

    try:
        out = runner.explore(name, runner.lra_engine(8000), scenario, claims, confirm=confirm, budget_s=budget,
                             witness=lambda eng, v: [f'latlon_result_size_{len(v["res"])}'])
    finally:
        shims.uninstall()
    return out


def run_instance(inst):
    if inst[0] == 'latlon_inmem':
        return run_latlon_inmem(inst)
    if inst[0] == 'latlon_topk':
        return run_latlon_topk(inst)
    import shutil
    from symx import sqlshim
    from harness import sqlcommon
    shape, max_elmt = inst[0], inst[1]
    layout = inst[3] if len(inst) > 3 else None
    backend = inst[4] if len(inst) > 4 else 'inmem'
    topk = '+topk' in backend
    backend_name = backend
    backend = backend.split('+')[0]
    graph, kind = SHAPES[shape]
    shims.install()
    d = None
    if backend == 'sqlite':
        sqlcommon.install()
        d = sqlcommon.scratch_dir()
    cnt = [0]
    holder = {}
    name = f"{backend_name} {kind} {shape} max_elmt={max_elmt} coords={layout or 'symbolic'}"

    def scenario():
        eng = E.get_engine()
        if layout is None:
            coords = {n: (eng.fresh(f"y{n}"), eng.fresh(f"x{n}")) for n in graph}
        else:
            coords = {n: LAYOUTS[layout][n] for n in graph}
        cnt[0] += 1
        if backend == 'sqlite':
            sqlshim.reset()
        mp = make_map(backend, graph, coords, d, cnt[0])
        loc = ((0.5 if backend_name.endswith('1d') else eng.fresh("qy")), eng.fresh("qx"))
        r2 = z3.Real("r_sq")
        eng.assume(r2 > 0)
        if topk:
            # focus on sorting / truncation: everything lies within the radius (radius 100, query within [-5,5]^2)
            eng.assume(z3.And(r2 == 10000, E.lift(loc[0]) >= -5, E.lift(loc[0]) <= 5, loc[1].t >= -5, loc[1].t <= 5))
        r = eng.sqrt_of(r2, name="r")
        holder.clear()
        holder.update(coords=coords, loc=loc, r2=r2)
        res = query(mp, kind, loc, r, max_elmt)
        return dict(coords=coords, loc=loc, r=r, r2=r2, res=res)

    def claims(eng, v):
        coords, loc, r2, res = v['coords'], Lp(v['loc']), v['r2'], v['res']
        C = {n: Lp(c) for n, c in coords.items()}
        cl = []
        u = z3.Real('u!w')
        if kind == 'nodes':
            elems = [((n,), d2(loc, C[n])) for n in graph]
            got = {(row[1],): row for row in res}
        else:
            elems = [((a, b), None) for a in graph for b in graph[a] if a != b]
            got = {(row[1], row[3]): row for row in res}
        cl.append(('no_duplicates_and_only_map_elements', z3.BoolVal(len(got) == len(res) and all(k in dict(elems) for k in got))))
        # reported values
        radic = {}
        for key, row in got.items():
            d = row[0]
            D2 = d.sq if isinstance(d, E.Sym) and d.sq is not None else E.lift(d) * E.lift(d)
            radic[key] = D2
            if kind == 'nodes':
                cl.append((f'distance_of_{key}', D2 == d2(loc, C[key[0]])))
                cl.append((f'location_of_{key}', z3.BoolVal(same_pt(row[2], coords[key[0]]))))
            else:
                a, b = C[key[0]], C[key[1]]
                pi, ti = Lp(row[5]), E.lift(row[6])
                degenerate = z3.And(a[0] - b[0] <= EPS8, b[0] - a[0] <= EPS8, a[1] - b[1] <= EPS8, b[1] - a[1] <= EPS8)
                # concrete layout coordinates are combined in IEEE double by the code (e.g. s2-s1, l2): tolerances for that rounding
                on = at(a, b, ti)
                cl.append((f'projection_of_{key}', z3.And(ti >= 0, ti <= 1, d2(pi, on) <= RND * (d2(a, b) + 1) * RND,
                                                          D2 - d2(loc, pi) <= RND * D2 + TINY, d2(loc, pi) - D2 <= RND * D2 + TINY)))
                w = at(a, b, u)
                cl.append((f'nearest_point_of_{key}', z3.Implies(z3.And(u >= 0, u <= 1),
                                                                 z3.If(degenerate, d2(pi, w) <= DEG2, d2(loc, w) * (1 + RND) + TINY >= D2))))
                cl.append((f'end_points_of_{key}', z3.BoolVal(same_pt(row[2], coords[key[0]]) and same_pt(row[4], coords[key[1]]))))
        # membership: full scan
        if max_elmt is None:
            for key, q in elems:
                if kind == 'nodes':
                    inside = q < r2
                    cl.append((f'membership_of_{key}', z3.BoolVal(key in got) == inside,
                               z3.BoolVal(key in got) == (q < r2 * z3.Q(3, 4)) if key not in got else z3.BoolVal(key in got) == (q < r2 * z3.Q(5, 4))))
                else:
                    a, b = C[key[0]], C[key[1]]
                    w = at(a, b, u)
                    if key in got:
                        cl.append((f'member_{key}_is_within_radius', radic[key] < r2))
                    else:
                        # nothing of the edge may be (clearly) inside the radius
                        cl.append((f'missing_{key}_is_not_within_radius', z3.Implies(z3.And(u >= 0, u <= 1), d2(loc, w) >= r2 - BAND - z3.Q(4, 10 ** 8) * (1 + r2)),
                                   z3.Implies(z3.And(u >= 0, u <= 1), z3.Or(d2(loc, w) >= r2 * z3.Q(3, 4), d2(loc, w) >= r2 - z3.Q(1, 100)))))
        else:
            cl.append(('at_most_max_elmt', z3.BoolVal(len(res) <= max_elmt)))
            u2 = z3.Real('u2!w')
            for key, q in elems:
                if key in got:
                    continue
                full = z3.BoolVal(len(res) == max_elmt)
                if kind == 'nodes':
                    # an omitted node is outside the radius or not nearer than every returned one (result is full)
                    cl.append((f'omitted_{key}_is_farther', z3.Or(q >= r2, z3.And(full, *[q >= radic[k] for k in got]))))
                else:
                    # an omitted edge: no point of it is (clearly) nearer than every returned edge while the result is full,
                    # or no point of it is (clearly) within the radius   [forall u: A(u)] or [forall u2: B(u2)]
                    a, b = C[key[0]], C[key[1]]
                    dk = d2_closed(loc, a, b)       # independent closed form (clamped projection) instead of a quantified witness
                    slack = BAND + z3.Q(4, 10 ** 8) * (1 + r2)
                    A_ = z3.And(full, *[dk >= radic[k] - slack for k in got])
                    B_ = dk >= r2 - slack
                    rA = z3.And(full, *[dk >= radic[k] * z3.Q(3, 4) for k in got])
                    rB = z3.Or(dk >= r2 * z3.Q(3, 4), dk >= r2 - z3.Q(1, 100))
                    cl.append((f'omitted_{key}_is_not_among_the_nearest', z3.Or(A_, B_), z3.Or(rA, rB)))
        ds = [radic[(row[1],) if kind == 'nodes' else (row[1], row[3])] for row in res]
        cl.append(('sorted_by_distance', z3.And(*[a <= b for a, b in zip(ds, ds[1:])]) if len(ds) > 1 else z3.BoolVal(True)))
        return cl

    findings = load_findings(PID)

    def confirm(eng, model, v, cname):
        if not isinstance(v, dict):
            # the query raised on this path: a statement the SQL stand-in cannot interpret is a harness limit (exit 3, undecided),
            # anything else is replayed on doubles with the real sqlite3 like every other candidate
            if isinstance(v, sqlshim.SqlShimError):
                raise RuntimeError(f"the SQL stand-in cannot interpret a statement issued by the code under test ({v}); this check cannot decide this tree")
            if not holder:
                return None
            v = dict(holder)
        cc = {n: tuple(E.model_value(model, c.t) if E.is_sym(c) else float(c) for c in p) for n, p in v['coords'].items()}
        loc = tuple(E.model_value(model, c.t) if E.is_sym(c) else float(c) for c in v['loc'])
        r = max(E.model_value(model, v['r2']), 0.0) ** 0.5
        bad, res = concrete_query(backend, shape, cc, loc, r, max_elmt)
        if bad:
            cls = 'InMemMap' if backend == 'inmem' else 'SqliteMap'
            return dict(desc=f"{cls}.{kind}_closeto(loc={loc}, max_dist={r}, max_elmt={max_elmt}) on {cc}: {bad}", coords={str(k): v_ for k, v_ in cc.items()},
                        loc=loc, radius=r, shape=shape, max_elmt=max_elmt, backend=backend)
        return None

    def witness(eng, v):
        return [f'result_size_{len(v["res"])}']
    try:
        out = runner.explore(name, runner.nra_engine(NRA_MS[0]), scenario, claims, confirm=confirm, witness=witness,
                             budget_s=inst[2] if len(inst) > 2 else None)
    finally:
        shims.uninstall()
        if backend == 'sqlite':
            sqlcommon.uninstall()
            shutil.rmtree(d, ignore_errors=True)
    return out


def concrete_query(backend, shape, cc, loc, r, max_elmt):
    """The query on doubles with the unmodified code (real sqlite3 for the SQLite backend) + concrete oracle."""
    import shutil
    from harness import sqlcommon
    graph, kind = SHAPES[shape]
    d = sqlcommon.scratch_dir() if backend == 'sqlite' else None
    try:
        with shims.concrete():
            was = False
            if backend == 'sqlite':
                from leuvenmapmatching.map import sqlite as sq
                was = sq.sqlite3 is not getattr(sq, '_real_sqlite3', sq.sqlite3)
                sqlcommon.uninstall()
            try:
                mp = make_map(backend, graph, cc, d, 'replay')
                res = query(mp, kind, loc, r, max_elmt)
                if backend == 'sqlite':
                    mp.db.close()
            except Exception as e:
                return f"raised {e!r}", None
            finally:
                if was:
                    sqlcommon.install()
        return concrete_oracle(kind, graph, cc, loc, r, max_elmt, res), res
    finally:
        if d:
            shutil.rmtree(d, ignore_errors=True)


def known_sqlite(v, findings):
    """Known finding F-C11-sqlite-rtree-float32: an element within the radius is missing from a SqliteMap query and one of its
    coordinates is within the float32 rounding (2^-22 relative) of the border of the box [loc - r, loc + r]."""
    import re
    m = re.search(r": \((\d+)(?:, (\d+))?,?\) at distance \S+ < radius \S+ is missing from the result", v.get('desc', ''))
    if not m or 'coords' not in v:
        return None
    (qy, qx), r = v['loc'], v['radius']
    pts = [v['coords'].get(k) or v['coords'].get(int(k)) for k in m.groups() if k]
    near = False
    for c in pts:
        for val, q in ((c[0], qy), (c[1], qx)):
            ulp = 2.0 ** -22 * abs(val) + 1e-300
            if abs(abs(val - q) - r) <= 2 * ulp:
                near = True
    for f in findings:
        if f.get('predicate') == 'sqlite_rtree_float32_border' and near:
            return f"{f['id']}: {f['what'][:160]}"
    return None


def known_finding(v, findings):
    """Known finding F-C11-inmem-edges-startnode-box: an InMemMap edge is missing although within the radius, and its start node
    lies outside the box [loc - r, loc + r] (that is exactly the pre-filter of the linear scan)."""
    import re
    m = re.search(r": \((\d+), (\d+)\) at distance \S+ < radius \S+ is missing from the result", v.get('desc', ''))
    if v.get('backend') == 'sqlite':
        return known_sqlite(v, findings)
    if not m and ('fewer results' in v.get('desc', '') or 'truncated result is not' in v.get('desc', '')):
        # under max_elmt the concrete oracle reports a count; the omitted edge is named by the claim
        m = re.match(r"omitted_\((\d+), (\d+)\)_is_not_among_the_nearest", v.get('claim', ''))
    if not m or 'coords' not in v or not v.get('desc', '').startswith('InMemMap.edges_closeto'):
        return None
    a = m.group(1)
    c = v['coords'].get(a) or v['coords'].get(int(a))
    if c is None:
        return None
    (qy, qx), r = v['loc'], v['radius']
    outside = abs(c[0] - qy) > r or abs(c[1] - qx) > r
    for f in findings:
        if f.get('predicate') == 'inmem_edge_missing_start_node_outside_box' and outside:
            return f"{f['id']}: {f['what'][:160]}"
    return None


def instances(tier):
    """(shape, max_elmt, layout): layout None = all coordinates symbolic."""
    out = [('n1', None, None), ('n2', None, None), ('n2', 1, None)]
    for lay in LAYOUTS:
        out += [('e1', None, lay), ('e2_bidir', None, lay)]
    out += [('e2_fan', None, 'unit'), ('e2_fan', 1, 'unit'), ('e3_fan', 2, 'fan3', 'inmem+topk'), ('e3_fan', 2, 'star3', 'inmem+topk'), ('e3_fan', 2, 'fan3', 'inmem+topk1d'), ('e3_fan', 2, 'fan3', 'sqlite+topk1d'), ('e3_fan', 1, 'long', 'inmem+topk'), ('n3', 2, 'unit', 'inmem+topk'), ('e1_selfloop', None, 'long'), ('e2_fan', 1, 'metres1e7')]
    out += [('latlon_topk', 2, 1), ('latlon_topk', 2, None), ('latlon_topk', 3, 2)]
    out += [('latlon_inmem', 'nodes', 'n2', None), ('latlon_inmem', 'nodes', 'n3', 2), ('latlon_inmem', 'edges', 'e2_fan', None), ('latlon_inmem', 'edges', 'e3_fan', 2), ('latlon_inmem', 'edges', 'e2_bidir', 1)]
    out += [('n1', None, None, 'sqlite'), ('n2', None, None, 'sqlite'), ('n2', 1, 'metres1e7', 'sqlite'), ('n2', None, 'metres1e7', 'sqlite'), ('n3', None, 'unit', 'sqlite'), ('e1', None, 'unit', 'sqlite'),
            ('e1', None, 'long', 'sqlite'), ('e2_bidir', None, 'metres1e7', 'sqlite'), ('e2_fan', None, 'diag', 'sqlite')]
    if tier == 'thorough':
        out += [('n3', None, None), ('n3', 2, None), ('e1', None, None), ('e2_bidir', None, None), ('e1_selfloop', None, None)]
        out += [('e2_fan', m, lay) for m in (None, 1, 2) for lay in LAYOUTS]
    return out


def main(tier):
    import_repo()
    from leuvenmapmatching.map import inmem
    from leuvenmapmatching.util import dist_euclidean as de
    rep = Report(PID, tier)
    from leuvenmapmatching.map import sqlite as sq
    from harness import sqlcommon
    rep.validated += sqlcommon.selftest(8 if tier == 'quick' else 40)
    rep.functions = src_hash(sq.SqliteMap.nodes_closeto, sq.SqliteMap.edges_closeto, sq.SqliteMap.all_nodes, sq.SqliteMap.all_edges, inmem.InMemMap.nodes_closeto, inmem.InMemMap.edges_closeto, inmem.InMemMap._items_in_bb, de.box_around_point,
                             de.distance, de.distance_point_to_segment, de.project)
    from symx.common import fit_budget
    budget = fit_budget(len(instances(tier)), tier, 150, 150)
    res = run_instances(run_instance, [i[:2] + (budget,) + i[2:] for i in instances(tier)])
    rep.bounds = dict(backend="InMemMap without index (rtree package not installed)", metric="planar; plus SqliteMap.nodes_closeto and InMemMap.nodes_closeto / edges_closeto on a lat-lon map with symbolic stand-ins for the geodesic primitives (query logic only)",
                      maps="nodes_closeto: <=%d nodes, all coordinates symbolic; edges_closeto: <=2 directed edges (incl. self-listed neighbour) with coordinates from the layouts %s" % (2 if tier == 'quick' else 3, sorted(LAYOUTS)) + ("; plus 1-2 edges fully symbolic" if tier == 'thorough' else "") + "; query point and radius always symbolic",
                      max_elmt="None, 1" + (", 2" if tier == 'thorough' else ""))
    rep.outside = ["rounding", "rtree-indexed InMemMap", "latitude-longitude metric beyond the query logic over stand-ins (the geodesic primitives are C14's subject)", "SqliteMap runs use the parsing SQL shim with the float32 interval contract (replay on the real sqlite3)"]
    rep.assumptions = ["math.sqrt exact", "np.isclose as |a-b|<=atol", "list.sort on tuples of symbolic numbers forks on comparisons"]
    known = set()
    findings = load_findings(PID)
    tags = {}
    for r in sorted(res, key=lambda r: r['name']):
        rep.add_instance(r)
        for t, n in r.get('tags', {}).items():
            tags[t] = tags.get(t, 0) + n
        for v in r.get('violations', []):
            kf = known_finding(v, findings)
            if kf:
                if kf not in known:
                    known.add(kf)
                    rep.known_hits.append(f"{kf} (e.g. {v['desc'][:220]})")
                continue
            fn = write_replay(PID, dict(property=PID, instance=r['name'], **{k: v[k] for k in v if k != 'desc'}, observed=v['desc']))
            rep.violations.append(dict(replay=fn, msg=f"{r['name']} claim={v['claim']}: {v['desc']}"))
        for c in r.get('candidates', []):
            rep.unconfirmed.append(f"{r['name']}: {c}")
    rep.extra['reachability_tags'] = tags
    if not tags.get('result_size_1') or not tags.get('result_size_0'):
        rep.harness_errors.append("vacuity: empty / non-empty results not both reached")
    return rep.finish("symbolic execution of the real InMemMap.nodes_closeto/edges_closeto with the real planar kernels over z3 reals (SYMX); "
                      "membership / distance / projection / ordering compared with a full scan inside the solver (nlsat)")


def replay_file(path):
    import json
    import_repo()
    from leuvenmapmatching.map.inmem import InMemMap
    d = json.load(open(path))
    if d.get('kind') == 'latlon_inmem':
        g = SHAPES[d['shape']][0]
        bad = concrete_latlon_inmem(d['query'], g, {n: tuple(d['coords'][str(n)]) for n in g}, tuple(d['loc']), d['radius'], d['max_elmt'])
        print(bad or 'consistent')
        return 1 if bad else 0
    graph, kind = SHAPES[d['shape']]
    cc = {n: tuple(d['coords'][str((n))] if str(n) in d['coords'] else d['coords'][n]) for n in graph}
    loc, r = tuple(d['loc']), d['radius']
    bad, res = concrete_query(d.get('backend', 'inmem'), d['shape'], cc, loc, r, d['max_elmt'])
    print(res, '->', bad or 'consistent')
    return 1 if bad else 0

"""C12 - map backends are interchangeable (DESIGN.md section 5, C12).

R: the same node / directed-edge script (integer labels, symbolic coordinates) is loaded into the real InMemMap and into the real
SqliteMap (through the parsing SQL shim); node set, coordinates, outgoing neighbours (modulo InMemMap listing a node as its own
neighbour), edge neighbours, full edge listing, bounding box and box-restricted node listing for a symbolic box are compared,
and the same edge-based matcher (real planar kernels, unbounded initial radius) is run on both.
Counterexamples are replayed on the real sqlite3 with the model's coordinates.
"""
import contextlib
import io
import os
import shutil

import z3

from symx import engine as E
from symx import shims, runner, sqlshim
from symx.common import Report, run_instances, import_repo, src_hash, write_replay, load_findings
from symx.matchlib import Cfg, make_matcher, TOL
from harness import sqlcommon

PID = 'C12'
F32 = z3.Q(1, 2 ** 21)     # relative float32 band (R-tree stores outward-rounded 32-bit values)

GRAPHS = {
    'g2': ([1, 2], [(1, 2), (2, 1)]),
    'g3': ([1, 2, 3], [(1, 2), (2, 3), (3, 1), (2, 1)]),
    'g3_deadend': ([1, 2, 3], [(1, 2), (1, 3)]),
    'g4': ([1, 2, 3, 4], [(1, 2), (2, 3), (3, 4), (4, 1), (2, 4)]),
}


def load_both(nodes, edges, coords, d, tag, bulk=False):
    """bulk: the SQLite map is filled through its bulk interface (add_nodes / add_edges) instead of node by node."""
    from leuvenmapmatching.map.inmem import InMemMap
    from leuvenmapmatching.map.sqlite import SqliteMap
    a = InMemMap("mem", use_latlon=False)
    for n in nodes:
        a.add_node(n, coords[n])
    for x, y in edges:
        a.add_edge(x, y)
    b = SqliteMap(f"sql{tag}", use_latlon=False, dir=d)
    if bulk:
        b.add_nodes([(n, coords[n]) for n in nodes])
        b.add_edges([(x, y) for x, y in edges])
    else:
        for n in nodes:
            b.add_node(n, coords[n])
        for x, y in edges:
            b.add_edge(x, y)
    return a, b


def near_border(v, lo, hi):
    """v within the float32 band of one of the two borders."""
    def close(x, y):
        ax = z3.If(y >= 0, y, -y)
        return z3.And(x - y <= F32 * ax + F32, y - x <= F32 * ax + F32)
    return z3.Or(close(v, lo), close(v, hi))


def run_instance(inst):
    kind, gname = inst[:2]
    bulk = kind.endswith('_bulk')
    kind = kind[:-5] if bulk else kind
    nodes, edges = GRAPHS[gname]
    shims.install()
    sqlcommon.install()
    d = sqlcommon.scratch_dir()
    cnt = [0]
    with_matcher = kind == 'matcher'
    name = f"{kind} {gname}" + (" bulk-loaded" if bulk else "")
    findings = load_findings(PID)

    def scenario():
        eng = E.get_engine()
        sqlshim.reset()
        cnt[0] += 1
        if with_matcher or kind == 'box_exact':
            # concrete layout (float32-representable, so the index stores the exact values); symbolic observations / box
            lay = {1: (0.0, 0.0), 2: (0.0, 1.0), 3: (1.0, 1.0), 4: (1.0, 0.0)} if with_matcher else {1: (0.0, 0.0), 2: (2.0, 2.0), 3: (-1.5, 0.5), 4: (1.0, -3.0)}
            coords = {n: lay[n] for n in nodes}
        else:
            coords = {n: (eng.fresh(f"y{n}"), eng.fresh(f"x{n}")) for n in nodes}
        with contextlib.redirect_stdout(io.StringIO()):
            a, b = load_both(nodes, edges, coords, d, cnt[0], bulk)
            v = dict(coords=coords, a=a, b=b)
            if with_matcher:
                path = [(0.25, eng.fresh("ox0")), (0.5, eng.fresh("ox1"))]
                res = []
                for mp in (a, b):
                    cfg = Cfg(fam=inst[2], T=2, ne=False, sym_maxdist=False, sym_init=False, sym_minprob=False)
                    mt = make_matcher(eng, mp, cfg)
                    st, idx = mt.match(path)
                    res.append(dict(states=st, idx=idx, score=mt.lattice_best[-1].logprob if st else None))
                v.update(res=res, path=path)
            else:
                box = tuple(eng.fresh(n) for n in ('b_miny', 'b_minx', 'b_maxy', 'b_maxx'))
                eng.assume(z3.And(box[0].t <= box[2].t, box[1].t <= box[3].t))
                v.update(box=box, nodes_bb=(list(a.all_nodes(bb=box)), list(b.all_nodes(bb=box))), bb=(a.bb(), b.bb()))
        return v

    def same_num(x, y):
        if isinstance(x, E.Sym) or isinstance(y, E.Sym):
            return isinstance(x, E.Sym) and isinstance(y, E.Sym) and x.t.get_id() == y.t.get_id()
        return x == y

    def same_pt(p, q):
        return same_num(p[0], q[0]) and same_num(p[1], q[1])

    def claims(eng, v):
        try:
            return claims_inner(eng, v)
        except (E.Unsupported, E.Unwind, sqlshim.SqlShimError):
            raise
        except Exception as e:
            # a listing that raises on one backend for a loaded graph: decided by the concrete comparison on the real sqlite3
            return [(f'listings_answer_without_raising ({type(e).__name__}: {e})', z3.BoolVal(False))]

    def claims_inner(eng, v):
        a, b = v['a'], v['b']
        cl = []
        if with_matcher:
            ra, rb = v['res']
            cl.append(('matcher_same_index', z3.BoolVal(bool(ra['states']) == bool(rb['states']) and ra['idx'] == rb['idx'])))
            if ra['states'] and rb['states'] and ra['idx'] == rb['idx']:
                cl.append(('matcher_same_probability', z3.And(E.lift(ra['score']) <= E.lift(rb['score']) + TOL, E.lift(rb['score']) <= E.lift(ra['score']) + TOL)))
            return cl
        cl.append(('same_size_and_labels', z3.BoolVal(a.size() == b.size() and sorted(a.labels()) == sorted(b.labels()))))
        cl.append(('same_coordinates', z3.BoolVal(all(same_pt(a.node_coordinates(n), b.node_coordinates(n)) for n in nodes))))
        nb_ok = all(sorted(x[0] for x in a.nodes_nbrto(n) if x[0] != n) == sorted(x[0] for x in b.nodes_nbrto(n)) and
                    all(same_pt(dict(a.nodes_nbrto(n))[k], loc) for k, loc in b.nodes_nbrto(n)) for n in nodes)
        cl.append(('same_outgoing_neighbours_modulo_self', z3.BoolVal(bool(nb_ok))))
        en_ok = all(sorted((x[0], x[2]) for x in a.edges_nbrto(e) if x[0] != x[2]) == sorted((x[0], x[2]) for x in b.edges_nbrto(e)) for e in edges)
        cl.append(('same_edge_neighbours', z3.BoolVal(bool(en_ok))))
        ea = sorted(((r[0], r[2]), r[1], r[3]) for r in a.all_edges())
        eb = sorted(((r[0], r[2]), r[1], r[3]) for r in b.all_edges())
        cl.append(('same_edge_listing', z3.BoolVal([x[0] for x in ea] == [x[0] for x in eb] and
                                                   all(same_pt(x[1], y[1]) and same_pt(x[2], y[2]) for x, y in zip(ea, eb)))))
        # bounding box: the SQLite one comes from the float32 index
        ba, bb_ = v['bb']
        if bb_ is None or any(x is None for x in bb_):
            cl.append(('bounding_box_defined', z3.BoolVal(False)))
        else:
            parts = []
            for x, y in zip(ba, bb_):
                x, y = E.lift(x), E.lift(y)
                ax = z3.If(x >= 0, x, -x)
                parts.append(z3.And(x - y <= F32 * ax, y - x <= F32 * ax))
            cl.append(('same_bounding_box_up_to_float32', z3.And(*parts)))
        # box-restricted node listing: equal except for nodes within the float32 band of the border
        na, nb_ = ({r[0] for r in v['nodes_bb'][0]}, {r[0] for r in v['nodes_bb'][1]})
        box = [E.lift(x) for x in v['box']]
        for n in nodes:
            y, x = E.lift(v['coords'][n][0]), E.lift(v['coords'][n][1])
            agree = (n in na) == (n in nb_)
            if True:   # since the all_nodes(bb) repair (410a4d5) the SQLite listing filters on the exact coordinates
                # representable coordinates: no rounding in the index, the two listings must agree exactly (borders included)
                cl.append((f'box_listing_agrees_exactly_on_node_{n}', z3.BoolVal(agree)))
            else:
                cl.append((f'box_listing_agrees_on_node_{n}', z3.Or(z3.BoolVal(agree), near_border(y, box[0], box[2]), near_border(x, box[1], box[3])),
                           z3.BoolVal(agree)))
        return cl

    def confirm(eng, model, v, cname):
        def cv(x):
            return E.model_value(model, x.t) if isinstance(x, E.Sym) else float(x)
        cc = {n: tuple(cv(c) for c in p) for n, p in v['coords'].items()}
        box = tuple(cv(x) for x in v['box']) if 'box' in v else None
        cpath = [tuple(cv(c) for c in p) for p in v['path']] if 'path' in v else None
        bad = concrete_compare(gname, cc, box, cpath, inst[2] if with_matcher else None, bulk)
        if not bad and cpath is None and any(E.is_sym(c) for p in v['coords'].values() for c in p):
            # the solver tends to return dyadic coordinates (0, 1/2, ...), on which a backend that rounds or tests truthiness behaves
            # well by accident: the same configuration under an order-preserving affine change of each axis (generic doubles)
            cc2 = {n: (1.37 * p[0] + 0.1013, 0.73 * p[1] - 0.2017) for n, p in cc.items()}
            box2 = (1.37 * box[0] + 0.1013, 0.73 * box[1] - 0.2017, 1.37 * box[2] + 0.1013, 0.73 * box[3] - 0.2017) if box is not None else None
            bad = concrete_compare(gname, cc2, box2, None, None, bulk)
            if bad:
                cc, box = cc2, box2
        if bad:
            known = None
            for f in findings:
                if f.get('predicate') == 'sqlite_bb_uses_minX_only' and bad.startswith('bb()'):
                    known = f"{f['id']}: {f['what'][:160]}"
            return dict(desc=bad, known=known, graph=gname, coords={str(k): list(c) for k, c in cc.items()}, box=box, path=cpath, fam=inst[2] if with_matcher else None, kind='c12', bulk=bulk)
        return None

    try:
        out = runner.explore(name, runner.nra_engine(8000), scenario, claims, confirm=confirm, budget_s=inst[3] if len(inst) > 3 else None,
                             witness=lambda eng, v: ['compared'] + (['matcher_nonempty'] if v.get('res') and v['res'][0]['states'] else []))
    finally:
        sqlcommon.uninstall()
        shims.uninstall()
        shutil.rmtree(d, ignore_errors=True)
    return out


def concrete_compare(gname, cc, box, cpath, fam, bulk=False):
    """Both backends on doubles with the REAL sqlite3.  Returns None or a description.  An exception raised by either backend while
    loading or answering (finite coordinates, integer labels: valid input) is a difference between the backends as well."""
    try:
        return _concrete_compare(gname, cc, box, cpath, fam, bulk)
    except Exception as e:
        return f"a backend raised {type(e).__name__}: {e} while the same graph was loaded into / queried on both (bulk={bulk}, coordinates {cc})"


def _concrete_compare(gname, cc, box, cpath, fam, bulk=False):
    nodes, edges = GRAPHS[gname]
    d = sqlcommon.scratch_dir()
    try:
        with shims.concrete():
            sqlcommon.uninstall()
            try:
                with contextlib.redirect_stdout(io.StringIO()):
                    a, b = load_both(nodes, edges, cc, d, 'replay', bulk)
                    if a.size() != b.size() or sorted(a.labels()) != sorted(b.labels()):
                        return f"size/labels differ: {a.size()},{sorted(a.labels())} vs {b.size()},{sorted(b.labels())}"
                    for n in nodes:
                        if tuple(a.node_coordinates(n)) != tuple(b.node_coordinates(n)):
                            return f"node_coordinates({n}): {a.node_coordinates(n)} vs {b.node_coordinates(n)}"
                        if sorted(x for x in a.nodes_nbrto(n) if x[0] != n) != sorted(b.nodes_nbrto(n)):
                            return f"nodes_nbrto({n}): {a.nodes_nbrto(n)} vs {b.nodes_nbrto(n)}"
                    for e in edges:
                        if sorted(x for x in a.edges_nbrto(e) if x[0] != x[2]) != sorted(tuple(x) for x in b.edges_nbrto(e)):
                            return f"edges_nbrto({e}): {a.edges_nbrto(e)} vs {b.edges_nbrto(e)}"
                    if sorted(a.all_edges()) != sorted(b.all_edges()):
                        return f"all_edges(): {sorted(a.all_edges())} vs {sorted(b.all_edges())}"
                    ba, bb_ = a.bb(), b.bb()
                    if any(y is None or abs(x - y) > 2.0 ** -21 * abs(x) + 1e-30 for x, y in zip(ba, bb_)):
                        return f"bb(): in-memory {ba} vs sqlite {bb_} for coordinates {cc}"
                    if box is not None:
                        na, nb_ = sorted(x[0] for x in a.all_nodes(bb=box)), sorted(x[0] for x in b.all_nodes(bb=box))
                        import numpy as _np
                        for n in set(na) ^ set(nb_):
                            y, x = cc[n]
                            band = lambda v, lo, hi: min(abs(v - lo), abs(v - hi)) <= 2.0 ** -21 * max(abs(lo), abs(hi), abs(v)) + 2.0 ** -21
                            if True:
                                return f"all_nodes(bb={box}): in-memory {na} vs sqlite {nb_} (node {n} at {cc[n]})"
                    if cpath is not None:
                        res = []
                        for mp in (a, b):
                            cfg = Cfg(fam=fam, T=2, ne=False, sym_maxdist=False, sym_init=False, sym_minprob=False)
                            mt = make_matcher(None, mp, cfg)
                            st, idx = mt.match(cpath)
                            res.append((st, idx, mt.lattice_best[-1].logprob if st else None))
                        if bool(res[0][0]) != bool(res[1][0]) or res[0][1] != res[1][1] or (res[0][0] and abs(res[0][2] - res[1][2]) > 1e-7):
                            return f"matcher on {cpath}: in-memory {res[0]} vs sqlite {res[1]}"
                    b.db.close()
            finally:
                sqlcommon.install()
    finally:
        shutil.rmtree(d, ignore_errors=True)
    return None


def instances(tier):
    out = [('data', 'g2'), ('data', 'g3'), ('data', 'g3_deadend'), ('data_bulk', 'g2'), ('data_bulk', 'g3_deadend'), ('box_exact_bulk', 'g3'), ('box_exact', 'g3'), ('box_exact', 'g4'), ('matcher', 'g2', 'simple'), ('matcher', 'g3', 'dist'), ('matcher', 'g4', 'simple')]
    if tier == 'thorough':
        out += [('data', 'g4'), ('data_bulk', 'g3'), ('data_bulk', 'g4'), ('matcher_bulk', 'g3', 'dist'), ('matcher', 'g3', 'simple'), ('matcher', 'g4', 'dist'), ('matcher', 'g3_deadend', 'dist')]
    return out


def main(tier):
    import_repo()
    from leuvenmapmatching.map import sqlite as sq, inmem
    rep = Report(PID, tier)
    shims.selftest_halfnorm()
    rep.validated += sqlcommon.selftest(12 if tier == 'quick' else 60)
    rep.functions = src_hash(sq.SqliteMap.add_node, sq.SqliteMap.add_edge, sq.SqliteMap.add_nodes, sq.SqliteMap.add_edges, sq.SqliteMap.reindex_edges, sq.SqliteMap.all_edges, sq.SqliteMap.all_nodes, sq.SqliteMap.bb,
                             sq.SqliteMap.nodes_nbrto, sq.SqliteMap.edges_nbrto, sq.SqliteMap.node_coordinates, sq.SqliteMap.edges_closeto,
                             inmem.InMemMap.nodes_nbrto, inmem.InMemMap.edges_nbrto, inmem.InMemMap.all_edges, inmem.InMemMap.all_nodes,
                             inmem.InMemMap.bb, inmem.InMemMap._items_in_bb)
    from symx.common import fit_budget
    budget = fit_budget(len(instances(tier)), tier, 100, 100)
    res = run_instances(run_instance, [i + ((None,) if i[0].replace('_bulk', '') in ('data', 'box_exact') else ()) + (budget,) for i in instances(tier)])
    rep.bounds = dict(graphs="2-3 (4) integer-labelled nodes, symbolic coordinates, the edge sets g2/g3/g3_deadend(/g4)", box="symbolic box for all_nodes(bb)",
                      matcher="edge states, SimpleMatcher/DistanceMatcher, T=2, unit-square layout with symbolic observations, max_dist_init=None")
    rep.outside = ["rounding except the float32 index contract", "string labels (SqliteMap ids are integers)", "more than 4 nodes", "linked parallel edges (close_edges table)"]
    rep.assumptions = ["sqlite3 replaced by the parsing SQL shim (validated against real sqlite3 on %d random scripts this run); counterexamples replayed on real sqlite3" % rep.validated,
                       "bounding box and box listing compared up to the float32 rounding of the R-tree (2^-21 relative)"]
    tags, known = {}, set()
    for r in sorted(res, key=lambda r: r['name']):
        rep.add_instance(r)
        for t, n in r.get('tags', {}).items():
            tags[t] = tags.get(t, 0) + n
        for v in r.get('violations', []):
            if v.get('known'):
                known.add(v['known'] + f" (e.g. {v['desc'][:200]})" if not any(k.startswith(v['known'][:20]) for k in known) else v['known'])
                continue
            fn = write_replay(PID, dict(property=PID, instance=r['name'], **{k: v[k] for k in v if k != 'desc'}, observed=v['desc']))
            rep.violations.append(dict(replay=fn, msg=f"{r['name']} claim={v['claim']}: {v['desc']}"))
        for c in r.get('candidates', []):
            rep.unconfirmed.append(f"{r['name']}: {c}")
    rep.known_hits.extend(sorted(k for k in known if '(e.g.' in k))
    rep.extra['reachability_tags'] = tags
    if not tags.get('compared') or not tags.get('matcher_nonempty'):
        rep.harness_errors.append("vacuity: backends not compared / matcher never matched")
    return rep.finish("relational symbolic execution: the same symbolic map loaded into the real InMemMap and the real SqliteMap (over a parsing SQL "
                      "shim), all listed answers and an edge matcher compared per path (z3); replay on the real sqlite3")


def replay_file(path):
    import json
    import_repo()
    d = json.load(open(path))
    cc = {int(k): tuple(v) for k, v in d['coords'].items()}
    sqlcommon.install()
    bad = concrete_compare(d['graph'], cc, tuple(d['box']) if d.get('box') else None, [tuple(p) for p in d['path']] if d.get('path') else None, d.get('fam'), bool(d.get('bulk')))
    sqlcommon.uninstall()
    print(bad or "consistent")
    return 1 if bad else 0

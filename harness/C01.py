"""C01 - emitting-only matching returns a maximum-probability walk (DESIGN.md section 5, C01).

Shape B in G-abs: the real match() is executed by SYMX over an abstract map (all distances symbolic, QF_LRA /
QF_NRA for the distance family); on every path z3 compares the result with a brute-force optimum over all
walks of the documented state space, built inside the solver from the same symbols.
"""
import z3

from symx import engine as E
from symx import shims, runner
from symx.absmap import make_absmap_class, make_tablemap_class, table_from_model, library, NAMED
from symx.common import Report, run_instances, import_repo, src_hash, write_replay
from symx.matchlib import Cfg, Oracle, make_matcher, obs_path, TOL, threshold_values, concrete_thresholds
from symx.concrete import CModel, check_c01

PID = 'C01'
SPLIT_DEPTH = 4


MODES = {'all': dict(sym_maxdist=True, sym_init=True, sym_minprob=True),
         'md': dict(sym_maxdist=True, sym_init=False, sym_minprob=False),
         'mp': dict(sym_maxdist=False, sym_init=False, sym_minprob=True),
         'none': dict(sym_maxdist=False, sym_init=False, sym_minprob=False)}


def instances(tier):
    out = []
    fams = ('simple', 'dist', 'simple_n')
    if tier == 'quick':
        for name, g in library(3):
            ne = len(AbsEdges(g))
            if ne > 3:
                continue
            for fam in fams:
                if fam == 'simple_n':
                    modes = ['md', 'mp'] if ne <= 2 else []
                else:
                    modes = ['all'] if ne <= 2 else ['md', 'mp']
                for mode in modes:
                    out.append((name, g, dict(fam=fam, T=2, **MODES[mode])))
        out.append(('fork', NAMED['fork'], dict(fam='simple', T=3, **MODES['md'])))
        out.append(('oneway3', NAMED['oneway3'], dict(fam='dist', T=3, **MODES['mp'])))
        out.append(('line2', NAMED['line2'], dict(fam='simple', T=3, **MODES['md'])))
        out.append(('line2', NAMED['line2'], dict(fam='dist', T=3, **MODES['mp'])))
        out.append(('line2', NAMED['line2'], dict(fam='simple', T=1)))
        out.append(('line2', NAMED['line2'], dict(fam='simple_n', T=1)))
        out.append(('tri', NAMED['tri'], dict(fam='dist', T=1)))
    else:
        for name, g in library(3, named=('fork', 'path4', 'sq', 'star', 'tri_chord', 'oneway4', 'diamond')):
            ne = len(AbsEdges(g))
            for fam in fams:
                for T in (1, 2, 3):
                    if T == 3 and ne > 4:
                        continue
                    if fam == 'simple_n' and T == 3 and len(g) > 3:
                        continue
                    for mode in (['all', 'md', 'mp'] if T < 3 and ne <= 4 else ['md', 'mp', 'none']):
                        out.append((name, g, dict(fam=fam, T=T, **MODES[mode])))
    return out


def c01_claims(mp, mt, cfg, states, idx, lb, T):
    """The C01 statement as formulas: result = most probable admissible walk for the longest explainable prefix."""
    orc = Oracle(mp, mt, cfg)
    cl = []
    if not states:
        cl.append(('empty_means_no_admissible_start',
                   z3.And(idx == 0, *[z3.Not(orc.adm_strict(w)) for w in orc.walks(1)])))
        return cl
    k = idx + 1
    got = [m.shortkey for m in lb]
    L = E.lift(lb[-1].logprob)
    walk_ok = len(got) == k and all(b in orc.succ(a) for a, b in zip(got, got[1:])) and got[0] in orc.start_states()
    cl.append(('result_is_a_walk_of_the_state_space', z3.BoolVal(bool(walk_ok and list(states) == got))))
    if not walk_ok:
        return cl
    sg = orc.score(got)
    cl.append(('returned_path_admissible', orc.adm_loose(got)))
    cl.append(('reported_score_is_path_score', z3.And(L <= sg + TOL, L >= sg - TOL)))
    if k < T:
        cl.append(('prefix_is_longest', z3.And(*[z3.Not(orc.adm_strict(w)) for w in orc.walks(k + 1)])))
    cl.append(('maximum_probability', z3.And(*[z3.Implies(orc.adm_strict(w), L >= orc.score(w) - TOL)
                                               for w in orc.walks(k)])))
    return cl


def reuse_claims(ctx):
    """matcher object used before on another trace (gabs op 'match2'): the claim is about the last plain match()."""
    r = [x for x in ctx['results'] if x['op'][0] == 'match'][-1]
    if r['states'] is None:
        return [('returns_a_list', False)]
    return c01_claims(r['mp'], r['mt'], ctx['cfg'], r['states'], r['idx'], r['lattice_best'], r['op'][1])


def reuse_witness(ctx):
    first = ctx['results'][0]
    t = ['reused_matcher']
    if first['states'] is not None and (not first['states'] or first['idx'] < first['op'][1] - 1):
        t.append('previous_call_stopped_early')
    return t


def run_instance(inst):
    if inst[0] == 'step':
        return run_step(inst)
    if inst[0] == 'reuse':
        from symx import gabs
        return gabs.run(inst[1:], reuse_claims, reuse_witness)
    return run_instance_fresh(inst)


def run_step(inst):
    """S - inductive step: an arbitrary well-formed emitting column t-1 (which states are present, their scores, a common chain
    length) is constructed directly, ONE real _match_states(t) is executed, and column t is compared with the documented
    recurrence  col_t[s] = max over admissible (p -> s) of col_{t-1}[p] + trans(p, s) + em(s, t).  Covers traces of any length."""
    from leuvenmapmatching.matcher.base import LatticeColumn
    from leuvenmapmatching.util.segment import Segment
    from symx.absmap import P, key_ps, t_of, flipped
    _, name, g, kw, length = inst[:5]
    budget = inst[5] if len(inst) > 5 else None
    cfg = Cfg(ne=False, T=2, **kw)
    AbsMap = make_absmap_class()
    shims.install()
    iname = f"step {name} {cfg.describe()} chain_length={length}"

    def prev_entry(mt, mp, pv, length):
        if pv is None:
            return None
        em = Segment(pv[0], mp.loc[pv[0]], pv[1], mp.loc[pv[1]], mp.loc[pv[0]], 0.0) if isinstance(pv, tuple) else Segment(pv, mp.loc[pv])
        return {mt.matching(mt, em, Segment("Oprev", P("oprev")), logprob=0.0, logprobe=0.0, logprobne=0, obs=-1, length=max(length - 1, 1), dist_obs=0.0)}

    def scenario():
        eng = E.get_engine()
        mp = AbsMap(g)
        mt = make_matcher(eng, mp, cfg)
        path = obs_path(2)
        mt.path = path
        mt.lattice = {0: LatticeColumn(0), 1: LatticeColumn(1)}
        orc = Oracle(mp, mt, cfg)
        pre, prevs = {}, {}
        for st in orc.states():
            tag = orc.label(st)
            if not eng.decide(z3.Bool(f"present_{tag}")):
                continue
            lp = z3.Real(f"lp_{tag}")
            eng.assume(lp <= 0)
            if isinstance(st, tuple):
                u, v = st
                k = key_ps("o0", f"n{u}", f"n{v}")
                em = Segment(u, mp.loc[u], v, mp.loc[v], P("proj:" + k), t_of(mp, k, f"n{u}", f"n{v}"))
                dist = mp.sq(k)
            else:
                em = Segment(st, mp.loc[st])
                dist = mp.distance(path[0], mp.loc[st])
            # an arbitrary own predecessor (the documented transition model is first order, so it must not matter): none, or
            # any state s with s -> st and st -> s (incl. st itself), chosen by the engine
            pv = None
            for s_ in orc.states():
                if st in orc.succ(s_) and s_ in orc.succ(st) and eng.decide(z3.Bool(f"prev_of_{tag}_is_{orc.label(s_)}")):
                    pv = s_
                    break
            prevs[st] = pv
            m = mt.matching(mt, em, Segment("O0", path[0]), logprob=E.Sym(lp), logprobe=E.Sym(lp), logprobne=0, obs=0,
                            length=length, dist_obs=dist, prev=prev_entry(mt, mp, pv, length))
            mt.lattice[0].upsert(m)
            pre[st] = lp
        mt._match_states(1)
        return dict(mp=mp, mt=mt, pre=pre, orc=orc, prevs=prevs)

    def claims(eng, v):
        mt, pre, orc = v['mt'], v['pre'], v['orc']
        col = mt.lattice[1].o[0] if mt.lattice[1].o else {}
        cl = []
        for st in orc.states():
            key = (st[0], st[1], 1, 0) if isinstance(st, tuple) else (st, 1, 0)
            cands = []
            for p_, lp in pre.items():
                if st in orc.succ(p_):
                    sc = lp + orc.trans(p_, st, 1) + orc.em(st, 1)
                    strict = z3.And(orc.is_state_at(st, 1), orc.dist_ok(st, 1), orc.prob_ok(sc, length + 1, TOL))
                    loose = z3.And(orc.is_state_at(st, 1), orc.dist_ok(st, 1), orc.prob_ok(sc, length + 1, -TOL))
                    cands.append((p_, sc, strict, loose))
            tag = orc.label(st)
            if key in col:
                m = col[key]
                got = E.lift(m.logprob)
                cl.append((f'entry_{tag}_has_an_admissible_predecessor_score',
                           z3.Or(*[z3.And(lo, got <= sc + TOL, got >= sc - TOL) for _, sc, _, lo in cands]) if cands else z3.BoolVal(False)))
                cl.append((f'entry_{tag}_is_the_maximum', z3.And(*[z3.Implies(stx, got >= sc - TOL) for _, sc, stx, _ in cands]) if cands else z3.BoolVal(True),
                           z3.And(*[z3.Implies(z3.And(orc.is_state_at(st, 1), orc.dist_ok_margin(st, 1), orc.prob_ok(sc, length + 1, z3.Q(1, 1000))), got >= sc - z3.Q(1, 1000)) for _, sc, stx, _ in cands]) if cands else None))
                pk = [q.shortkey for q in m.prev]
                ok = len(pk) == 1 and pk[0] in pre and st in orc.succ(pk[0]) and m.length == length + 1 and not m.stop
                cl.append((f'entry_{tag}_bookkeeping (prev={pk}, length={m.length})', z3.BoolVal(bool(ok))))
                if ok:
                    best = [sc for p_, sc, _, _ in cands if p_ == pk[0]][0]
                    cl.append((f'entry_{tag}_score_belongs_to_its_recorded_predecessor', z3.And(got <= best + TOL, got >= best - TOL)))
            else:
                robust = [z3.And(orc.is_state_at(st, 1), orc.dist_ok_margin(st, 1), orc.prob_ok(sc, length + 1, z3.Q(1, 1000))) for _, sc, _, _ in cands]
                cl.append((f'no_entry_{tag}_means_no_admissible_candidate', z3.And(*[z3.Not(stx) for _, _, stx, _ in cands]) if cands else z3.BoolVal(True),
                           z3.And(*[z3.Not(x) for x in robust]) if cands else None))
        extra = [k for k in col if (tuple(k[:-2]) if len(k) == 4 else k[0]) not in orc.states()]
        cl.append(('no_entries_outside_the_state_space', z3.BoolVal(not extra)))
        return cl

    def confirm(eng, model, v, cname):
        # concrete replay: the same column on a table map with plain floats
        from symx.absmap import ModelTable, eval_under
        TableMap = make_tablemap_class()
        table = ModelTable(model)
        thr = threshold_values(model, cfg)
        pre = {st: E.model_value(model, lp) for st, lp in v['pre'].items()}
        with shims.concrete():
            mp = TableMap(g, table, default=0.0)
            mt = make_matcher(None, mp, cfg)
            concrete_thresholds(mt, cfg, thr)
            path = obs_path(2)
            mt.path = path
            mt.lattice = {0: LatticeColumn(0), 1: LatticeColumn(1)}
            orc = Oracle(mp, mt, cfg)
            for st, lp in pre.items():
                if isinstance(st, tuple):
                    u, w = st
                    k = key_ps("o0", f"n{u}", f"n{w}")
                    tk = table.get('t:' + k)
                    em = Segment(u, mp.loc[u], w, mp.loc[w], P("proj:" + k), (1.0 - tk) if flipped(f"n{u}", f"n{w}") else tk)
                    dist = table.get('d:' + k)
                else:
                    em, dist = Segment(st, mp.loc[st]), mp.distance(path[0], mp.loc[st])
                mt.lattice[0].upsert(mt.matching(mt, em, Segment("O0", path[0]), logprob=lp, logprobe=lp, logprobne=0, obs=0, length=length, dist_obs=dist,
                                                   prev=prev_entry(mt, mp, v['prevs'].get(st), length)))
            try:
                mt._match_states(1)
            except Exception as e:
                return dict(desc=f"_match_states raised {type(e).__name__}: {e}", kind='step')
            col = mt.lattice[1].o[0] if mt.lattice[1].o else {}
            import math
            bad = []
            md = mt.max_dist
            for st in orc.states():
                key = (st[0], st[1], 1, 0) if isinstance(st, tuple) else (st, 1, 0)
                cm = CModel(mp, cfg, path, max_dist=mt.max_dist, max_dist_init=mt.max_dist_init, min_logprob_norm=mt.min_logprob_norm)
                best = None
                for p_, lp in pre.items():
                    if st in cm.succ(p_):
                        d, _, ti = cm.geo(st, 1)
                        if not cfg.only_edges and isinstance(st, tuple) and (abs(ti) <= 1e-8 or abs(ti - 1) <= 1e-8):
                            continue
                        sc = lp + cm.trans(p_, st, 1) + cm.em(st, 1)
                        if d <= md - 1e-7 and sc / (length + 1) >= mt.min_logprob_norm + 1e-7:
                            best = sc if best is None or sc > best else best
                if best is not None and key not in col:
                    bad.append(f"state {st}: admissible candidate with score {best} but no entry")
                if best is not None and key in col and col[key].logprob < best - 1e-7:
                    bad.append(f"state {st}: entry {col[key].logprob} < best admissible candidate {best}")
            if bad:
                return dict(desc='; '.join(bad[:3]) + f" (own predecessors of the column entries: { {str(k): str(x) for k, x in v['prevs'].items()} })", kind='step', graph=g, cfg=kw, pre={str(k): x for k, x in pre.items()}, thresholds=thr,
                            table=dict(table.accessed))
        return None

    def witness(eng, v):
        col = v['mt'].lattice[1].o[0] if v['mt'].lattice[1].o else {}
        return ['step_entries_%d' % min(len(col), 2)] + (['step_two_predecessors_competed'] if any(len(m.prev_other) > 0 for m in col.values()) else [])

    mk = runner.lra_engine(10000) if cfg.fam != 'dist' else runner.nra_engine(10000)
    out = runner.explore(iname, mk, scenario, claims, confirm=confirm, witness=witness, budget_s=budget)
    shims.uninstall()
    return out


def AbsEdges(g):
    return [(u, v) for u in g for v in g[u] if u != v]


def run_instance_fresh(inst):
    name, g, kw = inst[:3]
    cfg = Cfg(ne=False, **kw)
    AbsMap = make_absmap_class()
    TableMap = make_tablemap_class()
    shims.install()
    iname = f"{name} {cfg.describe()}"

    def scenario():
        eng = E.get_engine()
        mp = AbsMap(g)
        mt = make_matcher(eng, mp, cfg)
        path = obs_path(cfg.T)
        states, idx = mt.match(path)
        return dict(mp=mp, mt=mt, path=path, states=states, idx=idx)

    def claims(eng, v):
        return c01_claims(v['mp'], v['mt'], cfg, v['states'], v['idx'], v['mt'].lattice_best, cfg.T)

    def concrete_run(tab, thr):
        with shims.concrete():
            mp = TableMap(g, tab)
            mt = make_matcher(None, mp, cfg)
            concrete_thresholds(mt, cfg, thr)
            path = obs_path(cfg.T)
            states, idx = mt.match(path)
            cm = CModel(mp, cfg, path, max_dist=mt.max_dist, max_dist_init=mt.max_dist_init,
                        min_logprob_norm=mt.min_logprob_norm)
            return states, idx, mt, cm

    def confirm(eng, model, v, cname):
        tab = table_from_model(model, v['mp'].memo)
        thr = threshold_values(model, cfg)
        try:
            states, idx, mt, cm = concrete_run(tab, thr)
        except Exception as e:
            return dict(desc=f"real match() raised {type(e).__name__}: {e} on table map", table=tab, thresholds=thr,
                        graph=g, cfg=kw)
        bad = check_c01(cm, cfg.T, states, idx, mt.lattice_best)
        if bad:
            return dict(desc=bad, table=tab, thresholds=thr, graph=g, cfg=kw, result=[repr(states), idx])
        return None

    def validate(eng, model, v):
        tab = table_from_model(model, v['mp'].memo)
        thr = threshold_values(model, cfg)
        try:
            states, idx, mt, cm = concrete_run(tab, thr)
        except Exception as e:
            return f"concrete run raised {e!r}"
        # the symbolic path and the concrete run may legitimately differ only on exact ties / thresholds
        if idx != v['idx']:
            st, _ = (cm.classify([m.shortkey for m in v['mt'].lattice_best]) if v['states'] else ('edge', None))
            if st != 'edge' and check_c01(cm, cfg.T, states, idx, mt.lattice_best) is None and False:
                return f"symbolic idx {v['idx']} vs concrete idx {idx}"
        return None

    def witness(eng, v):
        tags = []
        if not v['states']:
            tags.append('empty')
        elif v['idx'] < cfg.T - 1:
            tags.append('early_stop')
        else:
            tags.append('complete')
        return tags

    logic = runner.lra_engine(10000) if cfg.fam != 'dist' else runner.nra_engine(10000)
    if len(inst) > 4 and inst[4] == 'split':
        shims.uninstall()
        return dict(name=iname, prefixes=runner.split(logic, scenario, SPLIT_DEPTH), inst=inst[:4])
    out = runner.explore(iname, logic, scenario, claims, confirm=confirm, witness=witness, validate=validate,
                         budget_s=inst[3] if len(inst) > 3 else None, root=inst[5] if len(inst) > 5 else None,
                         sample_fmt=lambda v: dict(states=repr(v['states']), idx=v['idx']))
    shims.uninstall()
    return out


def main(tier):
    import_repo()
    from leuvenmapmatching.matcher import base as mb, simple as ms, distance as md
    rep = Report(PID, tier)
    rep.extra['halfnorm_selftest_points'] = shims.selftest_halfnorm()
    rep.functions = src_hash(mb.BaseMatcher.match, mb.BaseMatcher._create_start_nodes, mb.BaseMatcher._match_states,
                             mb.BaseMatching.next, mb.BaseMatching.first, mb.BaseMatching.update,
                             mb.BaseMatching._update_inner, mb.LatticeColumn.upsert, mb.BaseMatcher.do_stop,
                             mb.BaseMatcher._build_node_path, mb.BaseMatcher._build_matching_path,
                             ms.SimpleMatcher.logprob_trans, ms.SimpleMatcher.logprob_obs,
                             md.DistanceMatcher.logprob_trans, md.DistanceMatcher.logprob_obs)
    insts = instances(tier)
    budget = 150 if tier == 'quick' else 1500
    core_s = 16 * (150 if tier == 'quick' else 900)   # total core-seconds for path exploration
    insts = [i + (budget,) for i in insts]
    shards = []
    for r in run_instances(run_instance, [i + ('split',) for i in insts]):
        if 'prefixes' not in r:
            rep.harness_errors.extend(r.get('errors', [f"split failed for {r.get('name')}"]))
            continue
        for pre in r['prefixes']:
            shards.append(tuple(r['inst']) + ('run', pre))
    per_shard = max(5.0, min(budget, core_s / max(1, len(shards))))
    shards = [s[:3] + (per_shard,) + s[4:] for s in shards]
    rep.extra['shards'] = len(shards)
    rep.extra['per_shard_budget_s'] = round(per_shard, 1)
    res = runner.merge_shards(run_instances(run_instance, shards))
    MDk = dict(sym_maxdist=True, sym_init=False, sym_minprob=False)
    reuse = [('reuse', gn, NAMED[gn], dict(fam=fam, T=2, ne=False, **MDk), [('match2', 2), ('match', 2)], {}, 60) for gn in ('oneway2', 'oneway3') for fam in ('simple', 'dist')]
    res += runner.merge_shards(run_instances(run_instance, reuse))
    steps = []
    for gn in (('oneway2', 'line2', 'oneway3', 'tri', 'fork') if tier == 'quick' else ('oneway2', 'line2', 'oneway3', 'tri', 'fork', 'line3', 'k3', 'oneway4', 'star')):
        for fam in ('simple', 'dist', 'simple_n'):
            if fam == 'simple_n' and gn not in ('oneway2', 'line2', 'oneway3'):
                continue
            for mode in ('md', 'mp'):
                steps.append(('step', gn, NAMED[gn], dict(fam=fam, **MODES[mode]), 3, 60 if tier == 'quick' else 600))
    res += run_instances(run_instance, steps)
    rep.bounds = dict(graphs="every digraph on <=3 nodes up to isomorphism" + (" with <=4 directed edges" if tier == 'quick' else "")
                             + ("; 4-node set fork,path4,sq,star,tri_chord,oneway4,diamond" if tier != 'quick' else "; fork, oneway3"),
                      T="trace length 1..3 (3 only up to 4 directed edges)" if tier != 'quick' else "T=2 (T=3 on fork/oneway3/line2, T=1 on line2)",
                      families="SimpleMatcher(only_edges=True), SimpleMatcher(only_edges=False), DistanceMatcher; avoid_goingback=False, non_emitting_states=False, no max_lattice_width",
                      config="max_dist, max_dist_init, min_prob_norm (as log) symbolic; obs_noise=1.0 concrete",
                      geometry="abstract: every distance an independent non-negative symbol, every relative position a symbol in [0,1] (superset of all embeddings)",
                      per_instance_budget_s=budget)
    rep.outside = ["rounding of symbolic arithmetic", "graphs with more than 4 nodes, traces longer than stated",
                   "probability threshold band of +-1e-9 (double constants in the emission term)",
                   "max_lattice_width (C07), non-emitting states (C06)"]
    rep.assumptions = ["AbsMap contract: dist=sqrt(q), q>=0, t in [0,1], symmetric distance, memoised per argument names",
                       "halfnorm.logpdf replaced by scipy's documented formula (checked against scipy at start)",
                       "node-and-edge model: an edge state whose projection is within 1e-8 of an end point is not a state"]
    tags = {}
    for r in sorted(res, key=lambda r: r['name']):
        rep.add_instance(r)
        for t, n in r.get('tags', {}).items():
            tags[t] = tags.get(t, 0) + n
        for v in r.get('violations', []):
            fn = write_replay(PID, dict(property=PID, instance=r['name'], **{k: v[k] for k in v if k != 'desc'}, observed=v['desc']))
            rep.violations.append(dict(replay=fn, msg=f"{r['name']} claim={v['claim']}: {v['desc']}"))
        for c in r.get('candidates', []):
            rep.unconfirmed.append(f"{r['name']}: {c}")
    rep.extra['reachability_tags'] = tags
    for need in ('empty', 'early_stop', 'complete', 'step_entries_2', 'step_two_predecessors_competed'):
        if not tags.get(need):
            rep.harness_errors.append(f"vacuity: no path reached outcome '{need}'")
    return rep.finish("symbolic execution of the real match() over an abstract map (SYMX, z3 linear/non-linear real arithmetic); "
                      "per-path comparison with a brute-force optimum over all walks encoded in the solver")


def replay_file(path):
    import json
    import_repo()
    with open(path) as f:
        d = json.load(f)
    if d.get('kind') == 'gabs':
        from symx import gabs
        return gabs.replay(path, reuse_claims)
    TableMap = make_tablemap_class()
    cfg = Cfg(ne=False, **d['cfg'])
    mp = TableMap(d['graph'], d['table'])
    mt = make_matcher(None, mp, cfg)
    concrete_thresholds(mt, cfg, d['thresholds'])
    p = obs_path(cfg.T)
    states, idx = mt.match(p)
    cm = CModel(mp, cfg, p, max_dist=mt.max_dist, max_dist_init=mt.max_dist_init, min_logprob_norm=mt.min_logprob_norm)
    bad = check_c01(cm, cfg.T, states, idx, mt.lattice_best)
    print("result", states, idx, "->", bad or "consistent with the reference model")
    return 1 if bad else 0

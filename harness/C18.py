"""C18 - a stored map is the same map when opened again (DESIGN.md section 5, C18).

B/R through the SQL shim: every build script from the bounded list (single / bulk inserts, deferred commit and index,
re-indexing, explicit commit) is executed by the real SqliteMap code with symbolic coordinates; the map is then reopened with
from_file once or twice and every answer (flag, selected distance functions, projection settings, size, nodes, edges,
neighbours, spatial queries for a symbolic query) is compared with the answer before closing.  Counterexamples are replayed on
the real sqlite3 with the model's coordinates.  InMemMap: dump / from_pickle through the real pickle.
"""
import contextlib
import io
import os
import shutil

import z3

from symx import engine as E
from symx import shims, runner, sqlshim, opaque
from symx.common import Report, run_instances, import_repo, src_hash, write_replay
from harness import sqlcommon

PID = 'C18'

NODES = [1, 2, 3]
EDGES = [(1, 2), (2, 3), (3, 1)]

# build scripts: lists of operations on a fresh SqliteMap
SCRIPTS = {
    'single': [('add_node', 1), ('add_node', 2), ('add_node', 3), ('add_edge', 1, 2), ('add_edge', 2, 3), ('add_edge', 3, 1)],
    'bulk': [('add_nodes', [1, 2, 3]), ('add_edges', [(1, 2), (2, 3), (3, 1)], False)],
    'deferred': [('add_node_nc', 1), ('add_node_nc', 2), ('add_node_nc', 3), ('add_edge_nc', 1, 2), ('add_edge_nc', 2, 3), ('commit',), ('reindex_nodes',), ('reindex_edges',)],
    'mixed': [('add_nodes', [1, 2]), ('add_node', 3), ('add_edges', [(1, 2)], False), ('add_edge', 2, 3), ('add_edge', 3, 1)],
    'bulk_noindex_then_reindex': [('add_nodes', [1, 2, 3]), ('add_edges', [(1, 2), (2, 3)], True), ('reindex_edges',)],
    'bulk_noindex_last': [('add_nodes', [1, 2, 3]), ('add_edge', 3, 1), ('add_edges', [(1, 2), (2, 3)], True)],
    'deferred_commit_by_later_insert': [('add_node_nc', 1), ('add_node_nc', 2), ('add_edge_nc', 1, 2), ('add_node', 3), ('add_edge', 2, 3)],
    # every kind of write as the LAST one before the map is closed (nothing later commits on its behalf)
    'bulk_nodes_last': [('add_node', 1), ('add_node', 2), ('add_edge', 1, 2), ('add_nodes', [3])],
    'node_last': [('add_nodes', [1, 2]), ('add_edges', [(1, 2)], False), ('add_node', 3)],
    'reindex_nodes_last': [('add_node_nc', 1), ('add_node_nc', 2), ('add_node_nc', 3), ('add_edge_nc', 1, 2), ('commit',), ('reindex_edges',), ('reindex_nodes',)],
    # parallel-road links (what connect_parallelroads writes for a pair of edges it finds parallel; its geometric test is not the subject)
    'linked': [('add_nodes', [1, 2, 3]), ('add_edges', [(1, 2), (2, 3), (3, 1)], False), ('link', (1, 2), (3, 1))],
    'ignore_double': [('add_node', 1), ('add_node', 2), ('add_node_ignore', 1), ('add_edge', 1, 2), ('add_node', 3)],
}


def apply_script(m, script, coords):
    for op in script:
        k = op[0]
        if k == 'add_node':
            m.add_node(op[1], coords[op[1]])
        elif k == 'add_node_nc':
            m.add_node(op[1], coords[op[1]], no_index=True, no_commit=True)
        elif k == 'add_node_ignore':
            m.add_node(op[1], coords[op[1]], ignore_doubles=True)
        elif k == 'add_nodes':
            m.add_nodes([(n, coords[n]) for n in op[1]])
        elif k == 'add_edge':
            m.add_edge(op[1], op[2])
        elif k == 'add_edge_nc':
            m.add_edge(op[1], op[2], no_index=True, no_commit=True)
        elif k == 'add_edges':
            m.add_edges(op[1], no_index=op[2])
        elif k == 'link':
            c = m.db.cursor()
            e1, e2 = tuple(op[1]).__hash__(), tuple(op[2]).__hash__()
            c.execute('INSERT INTO close_edges(id1, id2) VALUES (?, ?)', (e1, e2))
            c.execute('INSERT INTO close_edges(id1, id2) VALUES (?, ?)', (e2, e1))
            m.db.commit()
        elif k == 'commit':
            m.db.commit()
        elif k == 'reindex_nodes':
            m.reindex_nodes()
        elif k == 'reindex_edges':
            m.reindex_edges()
        else:
            raise AssertionError(op)


def observe(m, query, spatial):
    """Observable answers of a map; cells may be symbolic."""
    from leuvenmapmatching.util import dist_euclidean, dist_latlon
    lib = dist_latlon if m.distance is dist_latlon.distance else (dist_euclidean if m.distance is dist_euclidean.distance else None)
    o = dict(use_latlon=bool(m.use_latlon), distance_lib=getattr(lib, '__name__', str(m.distance)), crs_lonlat=m.crs_lonlat, crs_xy=m.crs_xy,
             name=m.name, size=m.size(), labels=sorted(m.labels()))
    o['all_nodes'] = sorted(m.all_nodes(), key=lambda r: r[0])
    o['all_edges'] = sorted(m.all_edges(), key=lambda r: (r[0], r[2]))
    o['nbr'] = {n: sorted(m.nodes_nbrto(n), key=lambda r: r[0]) for n in NODES}
    o['enbr'] = {e: sorted(m.edges_nbrto(e), key=lambda r: (r[0], r[2])) for e in EDGES}
    if spatial:
        loc, r = query
        with contextlib.redirect_stdout(io.StringIO()):
            o['nodes_closeto'] = [(row[1], row[0]) for row in m.nodes_closeto(loc, max_dist=r)]
            o['edges_closeto'] = [((row[1], row[3]), row[0]) for row in m.edges_closeto(loc, max_dist=r)]
    return o


def same(a, b):
    """structural equality where symbolic numbers are compared by term identity (reopening must return the stored values)."""
    if isinstance(a, E.Sym) or isinstance(b, E.Sym):
        if isinstance(a, E.Sym) and isinstance(b, E.Sym):
            return a.t.get_id() == b.t.get_id() or (a.sq is not None and b.sq is not None and a.sq.get_id() == b.sq.get_id())
        return False
    if isinstance(a, (list, tuple)) and isinstance(b, (list, tuple)):
        return len(a) == len(b) and all(same(x, y) for x, y in zip(a, b))
    if isinstance(a, dict) and isinstance(b, dict):
        return a.keys() == b.keys() and all(same(a[k], b[k]) for k in a)
    return a == b


def diff_keys(a, b):
    return [k for k in a if not same(a[k], b.get(k))]


def run_instance(inst):
    from leuvenmapmatching.map.sqlite import SqliteMap
    kind = inst[0]
    if kind == 'pickle':
        return run_pickle(inst)
    _, sname, latlon, cycles = inst[:4]
    crs = inst[5] if len(inst) > 5 else None
    script = SCRIPTS[sname]
    name = f"sqlite script={sname} use_latlon={latlon} reopen_cycles={cycles} crs={crs}"
    shims.install()
    opq = opaque.Opaque()
    opq.install()
    sqlcommon.install()
    d = sqlcommon.scratch_dir()
    cnt = [0]

    def scenario():
        eng = E.get_engine()
        sqlshim.reset()
        opq.reset()
        cnt[0] += 1
        coords = {n: (eng.fresh(f"y{n}"), eng.fresh(f"x{n}")) for n in NODES}
        query = ((eng.fresh("qy"), eng.fresh("qx")), eng.sqrt_of(z3.Real("r_sq"), name="r"))
        eng.assume(z3.Real("r_sq") > 0)
        fn = f"m{cnt[0]}"
        for suffix in ('.sqlite',):
            try:
                os.remove(os.path.join(d, fn + suffix))
            except OSError:
                pass
        m = SqliteMap(fn, use_latlon=latlon, dir=d, **(dict(crs_lonlat=crs[0], crs_xy=crs[1]) if crs else {}))
        apply_script(m, script, coords)
        spatial = not latlon
        obs = [observe(m, query, spatial)]
        for _ in range(cycles):
            m = SqliteMap.from_file(os.path.join(d, fn + ".sqlite"))
            obs.append(observe(m, query, spatial and not m.use_latlon))
        return dict(obs=obs, coords=coords, query=query)

    def claims(eng, v):
        cl = []
        first = v['obs'][0]
        for i, o in enumerate(v['obs'][1:], start=1):
            dk = diff_keys(first, o)
            cl.append((f"reopen_{i}_answers_identically (differs: {dk})", z3.BoolVal(not dk)))
        return cl

    def confirm(eng, model, v, cname):
        cc = {n: tuple(E.model_value(model, c.t) for c in p) for n, p in v['coords'].items()}
        q = (tuple(E.model_value(model, c.t) for c in v['query'][0]), max(E.model_value(model, z3.Real("r_sq")), 1e-6) ** 0.5)
        bad = concrete_roundtrip(sname, latlon, cycles, cc, q, crs)
        if bad:
            return dict(desc=bad, crs=crs, script=sname, use_latlon=latlon, cycles=cycles, coords={str(k): list(c) for k, c in cc.items()}, query=[list(q[0]), q[1]], kind='sqlite')
        return None

    try:
        out = runner.explore(name, runner.nra_engine(8000), scenario, claims, confirm=confirm, budget_s=inst[4] if len(inst) > 4 else None,
                             witness=lambda eng, v: ['reopened'] + (['edges_visible'] if v['obs'][0]['all_edges'] else []))
    finally:
        sqlcommon.uninstall()
        opq.uninstall()
        shims.uninstall()
        shutil.rmtree(d, ignore_errors=True)
    return out


def concrete_roundtrip(sname, latlon, cycles, cc, q, crs=None):
    """The same script on the REAL sqlite3 with concrete coordinates; returns None or a description of the difference."""
    from leuvenmapmatching.map.sqlite import SqliteMap
    d = sqlcommon.scratch_dir()
    try:
        with shims.concrete():
            sqlcommon.uninstall()
            try:
                with contextlib.redirect_stdout(io.StringIO()):
                    m = SqliteMap("replay", use_latlon=latlon, dir=d, **(dict(crs_lonlat=crs[0], crs_xy=crs[1]) if crs else {}))
                    apply_script(m, SCRIPTS[sname], cc)
                    first = observe(m, q, True)
                    m.db.close()
                    for i in range(cycles):
                        m = SqliteMap.from_file(os.path.join(d, "replay.sqlite"))
                        o = observe(m, q, True)
                        m.db.close()
                        dk = [k for k in first if first[k] != o.get(k)]
                        if dk:
                            k0 = dk[0]
                            return (f"SqliteMap(script={sname}, use_latlon={latlon}) with coordinates {cc}: after reopen #{i + 1} {dk} differ, e.g. "
                                    f"{k0}: before={first[k0]!r} after={o[k0]!r}")
            finally:
                sqlcommon.install()
    finally:
        shutil.rmtree(d, ignore_errors=True)
    return None


def run_pickle(inst):
    """InMemMap.dump / from_pickle with symbolic coordinates through the real pickle (Sym pickles through a registry)."""
    from leuvenmapmatching.map.inmem import InMemMap
    _, latlon = inst[:2]
    d = sqlcommon.scratch_dir()
    shims.install()

    def scenario():
        eng = E.get_engine()
        coords = {n: (eng.fresh(f"y{n}"), eng.fresh(f"x{n}")) for n in NODES}
        m = InMemMap("pk", use_latlon=latlon, dir=d, graph={1: (coords[1], [2]), 2: (coords[2], [3, 1]), 3: (coords[3], [])},
                     linked_edges={(1, 2): {(2, 3)}})
        m.dump()
        m2 = InMemMap.from_pickle(os.path.join(d, "pk.pkl"))
        return dict(a=m, b=m2)

    def claims(eng, v):
        a, b = v['a'], v['b']
        ok = (a.use_latlon == b.use_latlon and a.distance is b.distance and a.crs_lonlat == b.crs_lonlat and a.crs_xy == b.crs_xy
              and a.linked_edges == b.linked_edges and a.name == b.name and a.index_edges == b.index_edges
              and same({k: (list(v_[0]), v_[1]) for k, v_ in a.graph.items()}, {k: (list(v_[0]), v_[1]) for k, v_ in b.graph.items()})
              and [x[0] for x in a.nodes_nbrto(2)] == [x[0] for x in b.nodes_nbrto(2)] and
              [(x[0], x[2]) for x in a.edges_nbrto((1, 2))] == [(x[0], x[2]) for x in b.edges_nbrto((1, 2))])
        return [('pickled_map_is_the_same_map', z3.BoolVal(bool(ok)))]

    def confirm(eng, model, v, cname):
        return dict(desc=f"InMemMap(use_latlon={latlon}).dump()/from_pickle differs: use_latlon {v['a'].use_latlon}->{v['b'].use_latlon}, "
                         f"graph equal={v['a'].graph.keys() == v['b'].graph.keys()}", kind='pickle')
    try:
        return runner.explore(f"inmem pickle use_latlon={latlon}", runner.lra_engine(5000), scenario, claims, confirm=confirm,
                              witness=lambda eng, v: ['pickled'])
    finally:
        shims.uninstall()
        shutil.rmtree(d, ignore_errors=True)


def instances(tier):
    out = [('pickle', False), ('pickle', True)]
    names = list(SCRIPTS) if tier == 'thorough' else ['single', 'bulk', 'deferred', 'bulk_noindex_last', 'deferred_commit_by_later_insert', 'mixed', 'bulk_nodes_last', 'node_last', 'linked']
    for s in names:
        for latlon in (False, True):
            for cycles in ((1, 2) if tier == 'thorough' or s in ('single', 'bulk') else (1,)):
                out.append(('sqlite', s, latlon, cycles))
    out.append(('sqlite', 'single', False, 2, None, ('EPSG:4258', 'EPSG:31370')))
    out.append(('sqlite', 'bulk', True, 1, None, ('EPSG:4258', 'EPSG:31370')))
    return out


def main(tier):
    import_repo()
    from leuvenmapmatching.map import sqlite as sq, inmem, base as mbase
    rep = Report(PID, tier)
    rep.validated += sqlcommon.selftest(12 if tier == 'quick' else 60)
    rep.functions = src_hash(sq.SqliteMap.__init__, sq.SqliteMap.read_properties, sq.SqliteMap.save_properties, sq.SqliteMap.create_db,
                             sq.SqliteMap.from_file, sq.SqliteMap.add_node, sq.SqliteMap.add_nodes, sq.SqliteMap.add_edge, sq.SqliteMap.add_edges,
                             sq.SqliteMap.reindex_nodes, sq.SqliteMap.reindex_edges, mbase.BaseMap, inmem.InMemMap.serialize,
                             inmem.InMemMap.deserialize, inmem.InMemMap.dump, inmem.InMemMap.from_pickle)
    from symx.common import fit_budget
    budget = fit_budget(len(instances(tier)), tier, 100, 100)
    res = run_instances(run_instance, [(i[:4] + (budget,) + i[5:]) if i[0] == 'sqlite' else i for i in instances(tier)])
    rep.bounds = dict(map="3 integer-labelled nodes with symbolic coordinates, up to 3 directed edges", scripts=sorted(SCRIPTS) if tier == 'thorough' else "9 of the build scripts",
                      flag="use_latlon False and True (spatial queries compared in the planar case; lat-lon with opaque trigonometry)",
                      cycles="1-2 reopen cycles", query="symbolic location and radius")
    rep.outside = ["rounding", "pyproj projections (not installed)", "rtree-indexed InMemMap files (rtree not installed)", "more than 3 nodes"]
    rep.assumptions = ["sqlite3 replaced by the parsing SQL shim (validated against the real sqlite3 on %d random scripts in this run); counterexamples are replayed on the real sqlite3" % rep.validated]
    tags = {}
    for r in sorted(res, key=lambda r: r['name']):
        rep.add_instance(r)
        for t, n in r.get('tags', {}).items():
            tags[t] = tags.get(t, 0) + n
        for v in r.get('violations', []):
            fn = write_replay(PID, dict(property=PID, instance=r['name'], **{k: v[k] for k in v if k != 'desc'}, observed=v['desc']))
            rep.violations.append(dict(replay=fn, msg=f"{r['name']}: {v['desc']}"))
        for c in r.get('candidates', []):
            rep.unconfirmed.append(f"{r['name']}: {c}")
    rep.extra['reachability_tags'] = tags
    if not tags.get('reopened') or not tags.get('pickled') or not tags.get('edges_visible'):
        rep.harness_errors.append("vacuity: reopen / pickle / visible edges not all reached")
    return rep.finish("symbolic execution of the real SqliteMap build / from_file code over a parsing SQL shim with symbolic cells (and of InMemMap "
                      "dump/from_pickle through the real pickle); answers before/after compared per path; replay on the real sqlite3")


def replay_file(path):
    import json
    import_repo()
    d = json.load(open(path))
    if d.get('kind') != 'sqlite':
        print(d['observed'])
        return 1
    cc = {int(k): tuple(v) for k, v in d['coords'].items()}
    q = (tuple(d['query'][0]), d['query'][1])
    from harness import sqlcommon as sc
    sc.install()      # concrete_roundtrip switches to the real sqlite3 itself
    bad = concrete_roundtrip(d['script'], d['use_latlon'], d['cycles'], cc, q, d.get('crs'))
    sc.uninstall()
    print(bad or "consistent")
    return 1 if bad else 0

#!/bin/bash
# seed_test2.sh <seed-dir-name> <Cxx> [tier]: run a check against a scratch copy of /repo's working tree with a seeded change
# applied (LMM_REPO), evidence and replays redirected (VERIF_OUT).  /repo itself is not touched, so several of these can run
# side by side and while a thorough run is reading /repo.  The scratch copy is removed afterwards.
S=$1; C=$2; T=${3:-quick}
D=/var/tmp/seedrun_${S}_$C
rm -rf $D; mkdir -p $D/repo $D/out
git -C /repo diff --quiet || { echo "/repo dirty"; exit 2; }
git -C /repo archive HEAD | tar -x -C $D/repo
git -C $D/repo init -q 2>/dev/null
( cd $D/repo && git apply /verif/seeded/$S/patch.diff ) || { echo "patch does not apply"; rm -rf $D; exit 2; }
cd /verif && LMM_REPO=$D/repo VERIF_OUT=$D/out timeout ${SEED_TIMEOUT:-1500} ./check $C --tier $T > $D/log 2>&1; RC=$?
echo "seed=$S check=$C exit=$RC $(grep -E '^\[C' $D/log | head -1)"
grep -A1 "^VIOLATION" $D/log | grep -v "^VIOLATION\|^--" | head -1 | cut -c1-330
grep -E "^HARNESS" $D/log | head -2 | cut -c1-300
cp $D/log /var/tmp/seedlog_${S}_$C.log
rm -rf $D

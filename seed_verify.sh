#!/bin/bash
# seed_verify.sh Cxx [name]: verify a sub-agent's seeded change in its scratch worktree and archive it under /verif/seeded/
set -u
P=$1; NAME=${2:-$1}
WT=${WT_PREFIX:-/tmp/wt_}$P
export WT
[ -f $WT/SEED/patch.diff ] || { echo "no patch in $WT/SEED"; exit 2; }
cd $WT
git checkout -q -- leuvenmapmatching
git apply --check SEED/patch.diff || { echo "patch does not apply"; exit 2; }
/venv/bin/python -W ignore SEED/demo.py > /tmp/sv_$P.orig.log 2>&1; O=$?
git apply SEED/patch.diff
/venv/bin/python -W ignore SEED/demo.py > /tmp/sv_$P.mut.log 2>&1; M=$?
mkdir -p $WT/SEED/tmp
TMPDIR=$WT/SEED/tmp /venv/bin/python -m pytest -q -p no:cacheprovider --timeout=900 --continue-on-collection-errors tests > /tmp/sv_$P.tests.log 2>&1
T=$(tail -1 /tmp/sv_$P.tests.log)
echo "$P demo_original_exit=$O demo_changed_exit=$M tests: $T"
tail -3 /tmp/sv_$P.mut.log
if [ $O -eq 0 ] && [ $M -ne 0 ] && echo "$T" | grep -q "43 passed"; then
  D=/verif/seeded/$NAME; mkdir -p $D
  cp SEED/patch.diff $D/patch.diff
  sed "s#$WT#/repo#g" SEED/demo.py > $D/demo.py
  /venv/bin/python - "$D" "$P" "$O" "$M" "$T" <<'PY'
import json, os, sys
d, p, o, m, t = sys.argv[1:6]
try:
    meta = json.load(open(os.environ["WT"] + "/SEED/meta.json"))
except Exception as e:
    meta = {"note": f"agent meta.json unreadable: {e}"}
out = {"property": p, "summary": meta.get("summary"), "needs": meta.get("needs"),
       "verified_by_me": {"demo_on_original_exit": int(o), "demo_on_changed_exit": int(m), "tests_after_change": t,
                          "how": "in the agent's scratch worktree: git checkout original -> demo.py (exit 0), git apply patch.diff -> demo.py (exit 1), pytest tests (43 passed, same pre-existing failures)"},
       "apply": "git -C /repo apply /verif/seeded/<dir>/patch.diff ; run checks ; git -C /repo checkout -- .",
       "agent_meta": meta}
json.dump(out, open(f"{d}/meta.json", "w"), indent=1)
PY
  echo "archived -> $D"
else
  echo "NOT KEPT"
fi

#!/bin/sh
# Runs the repository's pinned test suite (guard off) and prints the pass/fail summary.
cd /repo && env -u LMM_VERIF /venv/bin/python -m pytest -ra -q -p no:cacheprovider --timeout=900 --continue-on-collection-errors "$@"

#!/bin/sh
# Offline setup: overlay venv on top of /venv (which holds the repo's own deps) with z3-solver and
# crosshair-tool from the local wheelhouse. Idempotent; every check calls it when .venv is missing.
set -e
cd "$(dirname "$0")"
V=.venv
if [ -x "$V/bin/python" ] && "$V/bin/python" -c "import z3, crosshair, numpy, scipy" 2>/dev/null; then
  exit 0
fi
rm -rf "$V"
/venv/bin/python -m venv "$V"
SP=$("$V/bin/python" -c "import sysconfig; print(sysconfig.get_paths()['purelib'])")
printf "import site; site.addsitedir('/venv/lib/python3.12/site-packages')\n" > "$SP/zz_venv_overlay.pth"
PIP_NO_INDEX=1 "$V/bin/python" -m pip install -q --no-index --find-links /opt/veriftools/wheels z3-solver crosshair-tool >/dev/null 2>&1 || \
PIP_NO_INDEX=1 "$V/bin/python" -m pip install --no-index --find-links /opt/veriftools/wheels z3-solver crosshair-tool
"$V/bin/python" -c "import z3, crosshair, numpy, scipy; print('verif venv ready: z3', z3.get_version_string())"

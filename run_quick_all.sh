#!/bin/bash
# runs the quick commands once, sequentially, against /repo and prints a one-line summary per check (regenerates evidence/*.json)
# usage: run_quick_all.sh [Cxx ...]   (default: every registered check)
cd "$(dirname "$0")"
./setup.sh >/dev/null
LIST=${@:-C20 C13 C07 C01 C02 C03 C04 C06 C08 C09 C10 C19 C16 C05 C11 C12 C17 C18 C14}
for c in $LIST; do
  s=$(date +%s)
  timeout 1800 ./check $c --tier quick > /var/tmp/quick_$c.log 2>&1; rc=$?
  echo "$c exit=$rc wall=$(( $(date +%s) - s ))s $(grep '^\[C' /var/tmp/quick_$c.log | cut -c1-160)"
  grep -E "^VIOLATION|^HARNESS|^KNOWN" /var/tmp/quick_$c.log | head -3 | cut -c1-300
done

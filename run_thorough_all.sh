#!/bin/bash
# runs every thorough command once, sequentially, and prints a one-line summary per check (used with `vp run`)
cd "$(dirname "$0")"
./setup.sh
for c in C20 C13 C07 C01 C02 C03 C04 C06 C08 C09 C10 C19 C16 C05 C11 C12 C17 C18 C14; do
  s=$(date +%s)
  timeout 3000 ./check $c --tier thorough > thorough_$c.log 2>&1; rc=$?
  echo "$c exit=$rc wall=$(( $(date +%s) - s ))s $(grep '^\[C' thorough_$c.log | cut -c1-160)"
  grep -E "^VIOLATION|^HARNESS" thorough_$c.log | head -3
done

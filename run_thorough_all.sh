#!/bin/bash
# runs thorough commands once, sequentially, and prints a one-line summary per check (used with `vp run`)
# usage: run_thorough_all.sh [Cxx ...]   (default: every registered check)
cd "$(dirname "$0")"
./setup.sh
LIST=${@:-C20 C13 C07 C01 C02 C03 C04 C06 C08 C09 C10 C19 C16 C05 C11 C12 C17 C18 C14}
for c in $LIST; do
  s=$(date +%s)
  timeout 3000 ./check $c --tier thorough > thorough_$c.log 2>&1; rc=$?
  echo "$c exit=$rc wall=$(( $(date +%s) - s ))s $(grep '^\[C' thorough_$c.log | cut -c1-160)"
  grep -E "^VIOLATION|^HARNESS|^KNOWN" thorough_$c.log | head -3 | cut -c1-300
done

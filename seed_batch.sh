#!/bin/bash
# seed_batch.sh <parallelism> <seed:check> ...   runs seed_test2.sh for every pair, a few at a time; one summary block per pair
P=$1; shift
printf "%s\n" "$@" | xargs -P "$P" -I{} bash -c 'p={}; s=${p%%:*}; c=${p##*:}; /verif/seed_test2.sh $s $c > /var/tmp/sb_${s}_$c.out 2>&1'
for p in "$@"; do s=${p%%:*}; c=${p##*:}; cat /var/tmp/sb_${s}_$c.out; done

#!/usr/bin/env python3
"""Regenerates MANIFEST.json from the table below (kept in one place so that it is always schema-valid)."""
import json, os
HERE = os.path.dirname(os.path.abspath(__file__))
SYMX = "SYMX: symbolic execution of the real Python functions by z3-real proxy objects, path enumeration, z3 decides each path's assertion"
CHECKS = {
 'C01': dict(tech="symbolic execution of real match() over abstract geometry + in-solver brute-force optimum; inductive step: one real _match_states from an arbitrary well-formed column against the documented recurrence (z3 LRA/NRA)", ref="5/C01",
             text="Bounded symbolic model checking: every feasible path of the real match() over an abstract map (all distances symbolic) on the listed small graphs and trace lengths is closed by an unsat query against a brute-force optimum over all walks; holds for all distance tables, thresholds within the bounds, not beyond.",
             note="Exact real arithmetic for symbolic values (no rounding); AbsMap geometric contract; halfnorm formula shim; graphs <=3-4 nodes, T<=3; incomplete enumerations are flagged per instance in the evidence."),
 'C13': dict(tech="symbolic execution of real dist_euclidean kernels + z3 nlsat refutation of nearest-point/minimality claims", ref="5/C13",
             text="Bounded symbolic checking of the planar kernels: all coordinates symbolic for distance/project/point-to-segment (incl. a symbolic delta argument)/box and for the structure of segment-to-segment; minimality of segment-to-segment on the stated segment families.",
             note="Reals instead of doubles; sqrt/isclose/min/max shims; segment-to-segment minimality in general position outside the claim."),
}
CHECKS.update({
 'C02': dict(tech="one-step symbolic execution of the real BaseMatching.next / logprob_trans / update from arbitrary predecessors; symbolic execution of real match()/widen/extend over abstract geometry; in-solver comparison with an independent re-derivation of the documented score model", ref="5/C02",
             text="Bounded symbolic model checking: the fields reported along the best path (log-probability, length, observation distance, accumulated distances) equal an independently re-derived model value on every path of the real code within the bounds; update() carries over every slot of the winner for all matching classes (token identity, and value equality for arbitrary symbolic numeric fields).",
             note="Reals for symbolic values; AbsMap contract; tolerance 1e-8; graphs <=4 nodes, T<=3, histories of <=3 operations; incomplete enumerations flagged per instance."),
 'C07': dict(tech="symbolic execution of real LatticeColumn.prune against an independent specification + relational symbolic execution of match() with/without width and widening sequences (z3 LRA/NRA)", ref="5/C07",
             text="Bounded symbolic model checking of prune (all weak orderings incl. exact ties of n<=4(5) symbolic scores, stop/delayed/threshold variants) and of pruned-vs-unpruned / widening monotonicity over abstract geometry; after the last operation of every width sequence the expanded candidates of each observation are the W most probable live ones (plus exact ties) and no postponed one is more probable.",
             note="Reals; column size and graph/trace bounds as listed in evidence; AbsMap contract."),
})
CHECKS.update({
 'C03': dict(tech="symbolic execution of real match() (unique on/off in one path) over abstract geometry with symbolic cut-offs; alignment claims + index truthfulness against an admissible-walk oracle (z3)", ref="5/C03",
             text="Bounded symbolic model checking: on every path of the real match() within the bounds the best path visits the observations in order with one emitting state each, the returned list is that path (collapsed iff unique), and the index / empty result agree with the existence of admissible walks; the same at DEBUG log level and for the results of extension / widening calls.",
             note="Reals; AbsMap contract; index truthfulness only emitting-only & unpruned; graphs <=4 nodes, T<=3."),
 'C04': dict(tech="symbolic execution of real match()/widen/extend over abstract geometry, and of match / map change / match on the real InMemMap with symbolic observations (incl. the map's own neighbour queries against its graph and link table), against an adjacency oracle from the graph dictionary; CrossHair on node_path_to_only_nodes", ref="5/C04",
             text="Bounded symbolic model checking: every state on every reachable best path exists in the map and consecutive states are moves the map offers (incl. linked pair, one-way, dead ends, self-listing on/off); nodes-only view computed by the real code is adjacent and repeat-free; CrossHair confirms node_path_to_only_nodes over all int labels for the stated sequence shapes.",
             note="AbsMap mirrors InMemMap's neighbour listing (the real InMemMap neighbour queries run in the real-map instances: oneway3/oneway4/line3, del_node / purge / add_node between two matches); SqliteMap neighbour relation is covered by C12; graphs <=4-5 nodes."),
 'C09': dict(tech="symbolic execution of operation sequences with the invariant asserted after every operation; inductive-step harness on LatticeColumn.upsert; z3 QF_FP lemma generated from the AST of BaseMatching.next", ref="5/C09",
             text="Bounded symbolic model checking of lattice well-formedness after each of <=3 operations (match, widen, extend, continue_with_distance, repeated match); one-step upsert harness from an arbitrary entry (identity of filed entries preserved, better candidate kept); IEEE-754 guard lemma (emitting Float64, non-emitting Float16/32).",
             note="Reals except the FP lemma; non-emitting FP lemma only at reduced width (stated); sequences longer than 3 outside."),
})
CHECKS.update({
 'C06': dict(tech="relational symbolic execution of real match() with non-emitting states off/on in one path over abstract geometry; inductive step: one real _match_non_emitting_states between two arbitrary emitting columns (z3 LRA/NRA)", ref="5/C06",
             text="Bounded symbolic model checking: on every joint path of the two runs the matched prefix with non-emitting states is not shorter and, for complete matches, the best probability not lower; one real non-emitting step between arbitrary emitting columns leaves every emitting entry filed, live, not less probable and not postponed (also under a finite max_dist).",
             note="Abstract geometry is a superset of real geometries (candidates only reported after concrete replay); first-order families; graphs <=4 nodes, T<=3."),
 'C08': dict(tech="relational symbolic execution: incremental schedule vs one-shot match of the real matcher in one path over abstract geometry (z3)", ref="5/C08",
             text="Bounded symbolic model checking: every one- and two-cut extension schedule gives the same index and probability (path up to exact ties) as a fresh one-shot match, cut-offs symbolic, lattice width None/1/2.",
             note="Reals; AbsMap contract; T<=4 on 2-edge graphs else 3."),
 'C10': dict(tech="relational symbolic execution under engine-chosen iteration/listing orders (values_all stub, edge/node/neighbour listing) in one path; relational inductive step on _match_non_emitting_states with the columns filed in two orders, incl. routes that reconverge inside the non-emitting search; second run with re-salted hashes of the lattice entries (z3)", ref="5/C10",
             text="Bounded symbolic model checking: for every permutation of set iteration order and map listing order within the bounds the index and probability coincide (paths only differ on exact ties).",
             note="LatticeColumn.values_all replaced by an order-parametrised stub that over-approximates hash order; AbsMap contract."),
 'C19': dict(tech="relational symbolic execution of real match() at ERROR and DEBUG level in one path over abstract geometry; relational inductive step on _match_non_emitting_states at both levels (z3)", ref="5/C19",
             text="Bounded symbolic model checking: same index, probability and (up to exact ties) path at both log levels on every joint path, with symbolic cut-offs so that stopped candidates exist.",
             note="Sym.__format__ placeholder for log formatting; ties between equally probable alternatives are not distinguished (C10's caveat)."),
})
CHECKS.update({
 'C11': dict(tech="symbolic execution of real InMemMap.nodes_closeto/edges_closeto with the real planar kernels; full-scan membership/distance/projection/order oracle in the solver (z3 nlsat); SqliteMap through the parsing SQL shim, incl. lat-lon nodes_closeto over stand-ins for the geodesic primitives", ref="5/C11",
             text="Bounded symbolic checking of the in-memory spatial queries in the planar metric: nodes with all coordinates symbolic, edges on a library of concrete layouts (unit, long, diagonal, zero-length, tiny, ~1e7 metres) with symbolic query point and radius; one known finding (start-node box pre-filter) is listed in known_findings.json.",
             note="Reals; rtree-indexed map, lat-lon metric and SqliteMap are outside this check's bounds (stated in evidence); absolute 1e-8 tolerances give a radius-proportional band."),
 'C20': dict(tech="symbolic execution of real interpolate_path (planar: real kernels; lat-lon: loop structure over symbolic stand-ins of the geodesic primitives), z3", ref="5/C20",
             text="Bounded symbolic checking: for traces of 1-3 (thorough: 4) symbolic points and symbolic spacing, with up to 4-8 (thorough: up to 24) subdivisions per leg, first/last/originals kept in order, inserted points at k/dt on the connection, no gap above the spacing.",
             note="Reals; more subdivisions per leg than the per-instance bound (listed in the evidence) outside the bound; lat-lon primitives assumed correct here (C14)."),
})
CHECKS.update({
 'C05': dict(tech="symbolic execution of real match() on a real InMemMap with the real planar kernels (G-real, z3 nlsat): cut-off and nearest-point claims per best-path state; cut-offs also over abstract geometry", ref="5/C05",
             text="Bounded symbolic checking: on concrete small layouts (incl. zero-length and 8e-5-long edges) with symbolic observations and thresholds, every state of the best path respects max_dist / max_dist_init / min_prob_norm, its position is p1+ti(p2-p1), its distance is the distance to that position and no point of the edge is nearer.",
             note="Reals; T=2; layout library; lat-lon metric outside; non-emitting minimality with the C13 slack."),
 'C17': dict(tech="relational symbolic execution (pairs vs triples) through real matcher + real InMemMap + real kernels (planar z3 nlsat; lat-lon with uninterpreted trigonometry); exceptions as outcomes; QF_FP guard lemma", ref="5/C17",
             text="Bounded symbolic checking of totality and timestamp-independence: on every explored path neither run raises and pairs/triples give the same states, index and probability; degenerate geometry is ordinary symbolic input in the planar metric.",
             note="Lat-lon runs only exercise control flow/tuple handling (opaque sin/cos/...; exception paths there are replayed on concrete coordinates before being reported); SimpleMatcher.logprob_obs(0) rounding outside."),
})
CHECKS.update({
 'C16': dict(tech="CrossHair on the label attributes compared by logprob_trans (read from the AST); relational symbolic execution under relabelling/scaling over abstract geometry; relational symbolic execution of the real planar kernels under swap/scale/translate (z3 nlsat)", ref="5/C16",
             text="Bounded symbolic checking of invariance: label comparison injective for all short str/int labels; same index and probability under bijective relabelling (dash / mixed labels, other listing order) and under scaling of all distances and parameters; kernels commute with axis swap, symbolic scaling and translation. The scale-dependence of the absolute 1e-8 tolerances is a listed known finding.",
             note="Reals (translation/scaling exact); matcher-level scaling with concrete factors 4, 1/4, 2^20; graphs <=4 nodes, T<=3."),
})
CHECKS.update({
 'C18': dict(tech="symbolic execution of the real SqliteMap build/from_file code over a parsing SQL shim with symbolic cells (shim validated against real sqlite3 each run; counterexamples replayed on real sqlite3); InMemMap pickle round-trip through the real pickle", ref="5/C18",
             text="Bounded symbolic checking: for each build script in the list (single/bulk inserts, deferred commit/index, re-index, ignore-doubles, every kind of write as the last one before closing, parallel-road link rows) with symbolic coordinates and query, every answer after 1-2 reopen cycles equals the answer before closing, for both metric flags.",
             note="SQL shim models only the statements the code issues (parsed at run time) and the float32 R-tree rounding as an interval; 3 nodes; pyproj/rtree absent."),
})
CHECKS.update({
 'C12': dict(tech="relational symbolic execution: the same symbolic map in the real InMemMap and the real SqliteMap (parsing SQL shim validated against sqlite3; replay on real sqlite3), answers and an edge matcher compared per path (z3)", ref="5/C12",
             text="Bounded symbolic checking: node set, coordinates, neighbours (mod self), edge neighbours, edge listing, bounding box and box-restricted node listing (up to the float32 rounding of the R-tree) coincide for all coordinates / boxes within the bounds; an edge matcher gives the same index and probability on both backends; the SQLite map filled node by node and through its bulk interface (add_nodes / add_edges).",
             note="2-4 integer-labelled nodes; matcher part on a concrete unit-square layout with symbolic observations; float32 band 2^-21 relative."),
})
CHECKS.update({
 'C14': dict(tech="symbolic execution of the real dist_latlon functions in an exact angle algebra ((sin,cos) pairs over z3 reals), identities against 3-D unit vectors decided by z3 nlsat; segment-to-segment structure over stand-ins with the real planar kernel; replay on doubles against an independent vector computation; concrete fallback grid for box_around_point only when a tree's box computation cannot be encoded", ref="5/C14",
             text="Bounded/partial symbolic checking: haversine distance = great-circle angle (all points); destination inverts distance and bearing; box_around_point contains the disc in latitude (longitude bounds and parts of point-to-segment are attempted and reported inconclusive when nlsat returns unknown); point-to-segment distance/point consistency and end-point swap on the decided paths; on equatorial / meridian segments of ~3 m and near segment ends additionally: no point of the segment is nearer than the reported one.",
             note="Exact reals; ti as a ratio of angles only through 0/1 clamping; the centimetre agreement of the planar-frame segment-to-segment routine is outside (transcendental error bound); inconclusive paths are counted, never reported as passes."),
})
NA = {
 'C15': "error bound between two transcendental computations (great-circle vs locally projected planar): needs a delta-complete procedure for sin/cos/atan2; z3 has none and cvc5 QF_NRAT timed out on the 3-variable core (DESIGN.md section 8)",
}
PENDING = "check not built yet in this round (work in progress, see DESIGN.md section 5)"
ALL = [f"C{i:02d}" for i in range(1, 21)]
m = dict(version=1, setup_cmd="./setup.sh",
         hooks=dict(guard="LMM_VERIF", enable="no source hook needed: shims are installed from the harness process by replacing module-level names; LMM_VERIF=1 is exported by ./check for completeness",
                    baseline_off_cmd="/verif/run_baseline.sh", source_commits=[], add_only=True),
         engines=[dict(name="symx", path="symx/engine.py", serves_properties=sorted(CHECKS), kind_free_text=SYMX),
                  dict(name="crosshair", path="harness/crosshair_c04.py", serves_properties=["C04", "C16"], kind_free_text="CrossHair 0.0.110 (z3) on PEP-316 contracts over the real label / node-list functions; the C16 harness file is generated from the AST of logprob_trans"),
                  dict(name="z3-fp", path="symx/fp.py", serves_properties=["C09", "C17"], kind_free_text="z3 QF_FP lemmas generated from the AST of BaseMatching.next"),
                  dict(name="sqlshim", path="symx/sqlshim.py", serves_properties=["C11", "C12", "C18"], kind_free_text="parsing SQL stand-in for sqlite3 with symbolic cells, validated against the real sqlite3 at every run"),
                  dict(name="angles", path="symx/angles.py", serves_properties=["C14"], kind_free_text="exact angle algebra ((sin,cos) pairs over z3 reals) for dist_latlon")],
         checks=[], not_applicable=[],
         notes="All checks are bounded symbolic checks (z3 decides every path within stated bounds); see DESIGN.md. Exit 3 = harness error (never a verdict).")
for pid in ALL:
    if pid in CHECKS:
        c = CHECKS[pid]
        m['checks'].append(dict(property_id=pid, quick_cmd=f"./check {pid} --tier quick", thorough_cmd=f"./check {pid} --tier thorough",
                                evidence_file=f"evidence/{pid}.json", replay_cmd_template=f"./check {pid} --replay {{path}}", engine="symx",
                                level_claimed=dict(category="model_checking", text=c['text'], design_ref=c['ref']),
                                level_note=c['note'], technique=c['tech']))
    else:
        m['not_applicable'].append(dict(property_id=pid, reason=NA.get(pid, PENDING)))
json.dump(m, open(os.path.join(HERE, 'MANIFEST.json'), 'w'), indent=1)
print("checks:", [c['property_id'] for c in m['checks']])

#!/bin/sh
# validates MANIFEST.json and evidence/*.json against the schemas (tooling venv has jsonschema)
cd "$(dirname "$0")"
python3-vt - <<'P'
import json, jsonschema, glob
jsonschema.validate(json.load(open('MANIFEST.json')), json.load(open('/root/.vp/MANIFEST.schema.json')))
es=json.load(open('/root/.vp/EVIDENCE.schema.json'))
for f in sorted(glob.glob('evidence/*.json')):
    jsonschema.validate(json.load(open(f)), es)
print('valid: MANIFEST +', len(glob.glob('evidence/*.json')), 'evidence files')
P

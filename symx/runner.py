"""Generic per-instance exploration loop shared by the matcher-level harnesses.

An instance supplies
  scenario(eng)            -> value      runs the real code (called once per path)
  claims(eng, value)       -> [(name, z3 formula)]   property as formulas over the path's symbols
  witness(eng, value)      -> optional list of reachability tags reached on this path
  confirm(eng, model, value, claim_name) -> None | dict(desc=..., replay=...)   concrete replay of a model
  expect_exc               -> exceptions are violations (C17 style) unless the instance says otherwise
"""
import time

import z3

from . import engine as E


def explore(name, make_engine, scenario, claims, confirm=None, witness=None, max_paths=None, budget_s=None,
            exc_is_violation=True, root=None, validate=None, max_validate=4, sample_fmt=None):
    eng = E.set_engine(make_engine())
    out = dict(name=name, paths=0, discharged=0, inconclusive=0, witnesses=0, validated=0,
               samples=[], violations=[], candidates=[], errors=[], tags={})
    deadline = time.time() + budget_s if budget_s else None

    def on_path(eng, res):
        k, val = res
        out['paths'] += 1
        if k in ('unsupported',):
            out['errors'].append(f"{name}: {k}: {val}")
            return
        if k == 'unwind':
            out['tags']['unwind'] = out['tags'].get('unwind', 0) + 1
            out['inconclusive'] += 1
            return
        if k == 'exc':
            r, m = eng.feasible()
            if r == 'unsat':
                out['paths'] -= 1
                return
            if r == 'unknown':
                out['inconclusive'] += 1
                return
            info = None
            if confirm is not None:
                info = confirm(eng, m, val, 'exception')
            if not exc_is_violation:
                t = f"exception_outside_claim:{type(val).__name__}"
                out['tags'][t] = out['tags'].get(t, 0) + 1
            elif info:
                out['violations'].append(dict(claim='exception', **info))
            else:
                out['candidates'].append(dict(claim='exception', desc=f"{type(val).__name__}: {val} (model did not reproduce)"))
            return
        tags = witness(eng, val) if witness else []
        for t in tags or []:
            out['tags'][t] = out['tags'].get(t, 0) + 1
        verdicts = []
        for item in claims(eng, val):
            cname, claim = item[0], item[1]
            rr, mm = eng.prove(claim)
            verdicts.append((cname, rr))
            if rr == 'sat':
                if len(item) > 2 and item[2] is not None:
                    # ask for a robust counterexample (a violation with margin) to replay; fall back to the thin one
                    r2, m2 = eng.prove(item[2])
                    if r2 == 'sat':
                        mm = m2
                info = confirm(eng, mm, val, cname) if confirm else None
                if info:
                    out['violations'].append(dict(claim=cname, **info))
                else:
                    out['candidates'].append(dict(claim=cname, desc="model did not reproduce on the concrete replay",
                                                  trace=''.join('T' if b else 'F' for b in eng.trace)))
        if all(v == 'unsat' for _, v in verdicts):
            out['discharged'] += 1
        elif any(v == 'unknown' for _, v in verdicts) and not any(v == 'sat' for _, v in verdicts):
            out['inconclusive'] += 1
        # reachability twin + concolic validation on a few paths
        if validate is not None and out['validated'] < max_validate and out['paths'] % 7 == 1:
            r, m = eng.feasible()
            if r == 'sat':
                out['witnesses'] += 1
                err = validate(eng, m, val)
                out['validated'] += 1
                if err:
                    out['errors'].append(f"{name}: concolic validation failed: {err}")
        elif out['witnesses'] < 3:
            r, m = eng.feasible()
            if r == 'sat':
                out['witnesses'] += 1
        if len(out['samples']) < 2:
            s = dict(instance=name, decisions=''.join('T' if b else 'F' for b in eng.trace)[:120], verdicts=verdicts)
            if sample_fmt:
                s['result'] = sample_fmt(val)
            out['samples'].append(s)

    st = eng.explore(scenario, on_path, max_paths=max_paths, root=root, deadline=deadline)
    out.update(decisions=st['decisions'], queries=st['queries'], solver_s=st['solver_s'],
               complete=st.get('complete', True), left=st.get('left', 0))
    return out


def lra_engine(timeout_ms=10000):
    return lambda: E.Engine(timeout_ms=timeout_ms, strategy='inc')


def nra_engine(timeout_ms=10000, lazy=False):
    return lambda: E.Engine(timeout_ms=timeout_ms, strategy='fresh', lazy=lazy)


def split(make_engine, scenario, depth):
    """Decision prefixes (feasible, length<=depth) that partition the path space of scenario."""
    eng = E.set_engine(make_engine())
    return eng.split(scenario, depth)


def merge_shards(results):
    """Merge per-shard result dicts (same 'name') into per-instance dicts."""
    by = {}
    for r in results:
        k = r['name']
        if k not in by:
            by[k] = dict(r)
            by[k]['shards'] = 1
            by[k]['tags'] = dict(r.get('tags', {}))
            for f in ('samples', 'violations', 'candidates', 'errors'):
                by[k][f] = list(r.get(f, []))
            continue
        a = by[k]
        a['shards'] += 1
        for f in ('paths', 'discharged', 'inconclusive', 'witnesses', 'validated', 'decisions', 'queries', 'solver_s', 'left'):
            a[f] = a.get(f, 0) + r.get(f, 0)
        a['wall_s'] = max(a.get('wall_s', 0), r.get('wall_s', 0))
        a['complete'] = a.get('complete', True) and r.get('complete', True)
        for t, n in r.get('tags', {}).items():
            a['tags'][t] = a['tags'].get(t, 0) + n
        for f in ('samples', 'violations', 'candidates', 'errors'):
            a[f].extend(r.get(f, []))
    return list(by.values())

"""Generic G-abs instance: a sequence of public matcher operations executed symbolically over an abstract map,
claims evaluated per path, counterexamples replayed on the unmodified code over a concrete table map.

An instance is (name, graph, cfg_kwargs, ops, extra) where ops is a list of
  ('match', T)            match(path[:T])                      (fresh lattice)
  ('extend', T)           match(path[:T], expand=True)
  ('widen', W)            increase_max_lattice_width(W)
  ('continue', k, n)      continue_with_distance(k=k, nb_obs=n) followed by nothing (lattice only)
  ('match2', T)           match(path2[:T]): plain call with a different trace on the same matcher object
"""
import math

import z3

from . import engine as E
from . import shims, runner
from .absmap import make_absmap_class, make_tablemap_class, ModelTable, eval_under, P
from .matchlib import Cfg, make_matcher, concrete_thresholds, threshold_values


CURRENT_ORDER = None     # listing-order environment of the matcher currently under execution (see install_values_all_stub)


def make_order(eng, c, rec):
    """Listing order chosen by the environment.  c.order: None (as given), or a set/list of tag prefixes to permute
    ('edges', 'nodes', 'nbr', 'values_all').  Symbolic runs: one engine fork per choice, recorded in rec; concrete replays:
    the recorded permutation."""
    which = c.order
    if not which:
        return None

    def order(lst, tag):
        if not any(tag.startswith(w) for w in which) or len(lst) <= 1:
            return lst
        if tag not in rec or len(rec[tag]) != len(lst):
            if eng is None:
                return lst
            rem, perm = list(range(len(lst))), []
            while rem:
                k = eng.choose(len(rem), tag="order")
                perm.append(rem.pop(k))
            rec[tag] = perm
        return [lst[i] for i in rec[tag]]
    return order


def relabelled(g, c):
    """graph, canonical-name map and linked edges under the relabelling of configuration c (identity if none)."""
    if not c.relabel:
        return g, None, c.linked
    f = {old: new for old, new in c.relabel}
    g2 = {f.get(k, k): [f.get(x, x) for x in v] for k, v in g.items()}
    canon = {f.get(k, k): k for k in g}
    linked = None
    if c.linked:
        linked = {(f.get(a, a), f.get(b, b)): [(f.get(x, x), f.get(y, y)) for x, y in v] for (a, b), v in c.linked.items()}
    return g2, canon, linked


def install_values_all_stub():
    """Environment stub for hash-order: LatticeColumn.values_all returns its entries in the order chosen by the
    listing-order environment (identity = sorted by key)."""
    from leuvenmapmatching.matcher.base import LatticeColumn
    if getattr(LatticeColumn.values_all, '_verif_stub', False):
        return

    def values_all(self):
        vals = []
        for o in self.o:
            vals.extend(o.values())
        vals.sort(key=lambda m: repr(m.key))
        if CURRENT_ORDER is not None:
            vals = CURRENT_ORDER(vals, f"values_all:{self.obs_idx}")
        return vals
    values_all._verif_stub = True
    LatticeColumn._orig_values_all = LatticeColumn.values_all
    LatticeColumn.values_all = values_all


def uninstall_values_all_stub():
    from leuvenmapmatching.matcher.base import LatticeColumn
    if hasattr(LatticeColumn, '_orig_values_all'):
        LatticeColumn.values_all = LatticeColumn._orig_values_all
        del LatticeColumn._orig_values_all


def apply_ops(factory, ops, unique=False, hook=None):
    """Run the operation script; `factory(overrides)` builds a fresh (map, matcher).  Returns (results, path, mp, mt).

    extra ops:  ('new', {cfg overrides})   continue with a fresh matcher (same map symbols)
                ('match_u', T)             match(path[:T], unique=True)
                ('loglevel', 'DEBUG'|'ERROR')
                ('sameobs', i, j)          observation i is the same point as observation j
                ('hashsalt', k)            entries hash as (k, name) from here on (k=0: the original hash)
    """
    import logging
    lg = logging.getLogger("be.kuleuven.cs.dtai.mapmatching")
    Tmax = max([o[1] for o in ops if o[0] in ('match', 'extend', 'match2', 'match_u')] + [1])
    path = [P(f"o{i}") for i in range(Tmax)]
    path2 = [P(f"x{i}") for i in range(Tmax)]
    res = []
    mp, mt = factory({})
    gen = 0
    try:
        for oi, op in enumerate(ops):
            kind = op[0]
            st = idx = None
            if kind == 'new':
                mp, mt = factory(op[1])
                gen += 1
                continue
            if kind == 'loglevel':
                lg.setLevel(getattr(logging, op[1]))
                continue
            if kind == 'sameobs':
                path[op[1]] = path[op[2]]          # a repeated observation (stationary vehicle): the very same point twice
                continue
            if kind == 'hashsalt':
                # another process = another string-hash salt = another iteration order of every set of lattice entries
                from leuvenmapmatching.matcher.base import BaseMatching as _BM
                if '__orig_hash__' not in _BM.__dict__:
                    _BM.__orig_hash__ = _BM.__hash__
                k = op[1]
                _BM.__hash__ = _BM.__orig_hash__ if not k else (lambda self, k=k: hash((k, self.cname)))
                continue
            if kind == 'match':
                st, idx = mt.match(path[:op[1]], unique=unique)
            elif kind == 'match_u':
                st, idx = mt.match(path[:op[1]], unique=True)
            elif kind == 'match2':
                st, idx = mt.match(path2[:op[1]], unique=unique)
            elif kind == 'extend':
                st, idx = mt.match(path[:op[1]], unique=unique, expand=True)
            elif kind == 'widen':
                st, idx = mt.increase_max_lattice_width(op[1], unique=unique)
            elif kind == 'continue':
                mt.continue_with_distance(k=op[1], nb_obs=op[2])
            else:
                raise AssertionError(op)
            lb = list(mt.lattice_best) if (mt.lattice_best and st) else []
            r = dict(op=op, states=st, idx=idx, lattice_best=lb, score=(lb[-1].logprob if lb else None),
                     T=len(mt.path) if mt.path else 0, mt=mt, mp=mp, gen=gen, raw_lattice_best=mt.lattice_best)
            if hook is not None:
                r['hooked'] = hook(mp, mt, r)
            res.append(r)
    finally:
        lg.setLevel(logging.ERROR)
        from leuvenmapmatching.matcher.base import BaseMatching as _BM
        if '__orig_hash__' in _BM.__dict__:
            _BM.__hash__ = _BM.__orig_hash__
    return res, path, mp, mt


def run(inst, claims_fn, witness_fn=None, engine=None, timeout_ms=10000, split_depth=None, exc_is_violation=True,
        hook_fn=None):
    """inst = (name, graph, cfg_kw, ops, opts[, budget[, mode[, prefix]]]).  Returns the runner.explore dict (or a
    split dict)."""
    name, g, kw, ops, opts = inst[:5]
    budget = inst[5] if len(inst) > 5 else None
    mode = inst[6] if len(inst) > 6 else 'run'
    prefix = inst[7] if len(inst) > 7 else None
    cfg = Cfg(**kw)
    unique = bool(opts.get('unique', False))
    AbsMap = make_absmap_class()
    TableMap = make_tablemap_class()
    shims.install()
    iname = f"{name} {cfg.describe()} ops={ops}" + (f" {opts}" if opts else "")

    def cfg_with(over):
        return Cfg(**dict(kw, **over)) if over else cfg

    def scenario():
        eng = E.get_engine()

        orders = []

        def factory(over):
            global CURRENT_ORDER
            c = cfg_with(over)
            rec = {}
            orders.append(rec)
            CURRENT_ORDER = make_order(eng, c, rec)
            g2, canon, linked2 = relabelled(g, c)
            mp = AbsMap(g2, linked=linked2, self_listed=c.self_listed, order=CURRENT_ORDER, canon=canon, scale=c.scale)
            return mp, make_matcher(eng, mp, c)
        try:
            res, path, mp, mt = apply_ops(factory, ops, unique=unique, hook=hook_fn)
        finally:
            globals()['CURRENT_ORDER'] = None
        return dict(mp=mp, mt=mt, path=path, results=res, cfg=cfg, ops=ops, opts=opts, g=g, orders=orders)

    def claims(eng, v):
        out = []
        for nm, f in claims_fn(v):
            out.append((nm, z3.BoolVal(f) if isinstance(f, bool) else f))
        return out

    def concrete_ctx(table, thr):
        with shims.concrete():
            recs = list(thr.get('__orders__') or [])
            gen = [0]

            def factory(over):
                global CURRENT_ORDER
                c = cfg_with(over)
                rec = {k: list(v) for k, v in (recs[gen[0]] if gen[0] < len(recs) else {}).items()}
                gen[0] += 1
                CURRENT_ORDER = make_order(None, c, rec)
                g2, canon, linked2 = relabelled(g, c)
                mp = TableMap(g2, table, linked=linked2, self_listed=c.self_listed, default=0.0, order=CURRENT_ORDER, canon=canon, scale=c.scale)
                mt = make_matcher(None, mp, c)
                concrete_thresholds(mt, c, thr)
                return mp, mt
            try:
                res, path, mp, mt = apply_ops(factory, ops, unique=unique, hook=hook_fn)
            finally:
                globals()['CURRENT_ORDER'] = None
            return dict(mp=mp, mt=mt, path=path, results=res, cfg=cfg, ops=ops, opts=opts, g=g)

    unrealised = []

    def confirm(eng, model, v, cname):
        """1. replay on a table map holding the solver's distances (the matcher must really misbehave on them);
        2. the distances must be realisable: search planar coordinates on which the violation persists, with the
           repository's own kernels (symx/realise.py).  Only a realised counterexample is reported."""
        from . import realise
        from .common import seed
        table = ModelTable(model)
        thr = threshold_values(model, cfg)
        if isinstance(v, dict) and any(v.get('orders', [])):
            thr['__orders__'] = [{k: list(p) for k, p in rec.items()} for rec in v['orders']]
        r = confirm_on_table(table, thr)
        if r is None:
            return None
        names = realise.base_names(g, None, ops)
        rr = realise.realise(confirm_on_table, names, r.get('table', {}), thr, seed=seed(), budget=opts.get('realise_budget', 120))
        if rr is not None:
            rr['desc'] = rr['desc'] + f" [planar coordinates {rr['coords']}]"
            return rr
        if len(unrealised) < 5:
            unrealised.append(dict(claim=cname, desc="violated on the solver's distance table (abstract map) but on none of the planar embeddings tried: "
                                                     + r['desc'][:300], table={k: round(x, 6) for k, x in list(r.get('table', {}).items())[:12]}))
        return None

    def confirm_on_table(table, thr):
        payload = dict(graph=g, cfg=kw, ops=[list(o) for o in ops], opts=opts, thresholds=thr, kind='gabs')
        try:
            ctx = concrete_ctx(table, thr)
        except Exception as e:
            if not exc_is_violation:
                return None
            payload['table'] = dict(getattr(table, 'accessed', table))
            return dict(desc=f"real code raised {type(e).__name__}: {e} on the concrete table map", **payload)
        extra = {}
        for k, val in thr.items():
            extra[k] = val
            if k in ('max_dist', 'max_dist_init'):
                extra[k + '_sq'] = val * val
        failed = []
        for nm, f in claims_fn(ctx):
            r = f if isinstance(f, bool) else eval_under(f, table, extra)
            if r is False:
                failed.append(nm)
        payload['table'] = dict(getattr(table, 'accessed', table))
        if failed:
            summ = [(r['op'], repr(r['states']), r['idx'], None if r['score'] is None else float(r['score'])) for r in ctx['results']]
            return dict(desc=f"claims {failed[:4]} fail on the concrete replay; results={summ}", **payload)
        return None

    def witness(eng, v):
        return witness_fn(v) if witness_fn else []

    mismatch = [0]

    def validate(eng, model, v):
        """concolic validation of the symbolic execution: a model of the path condition, replayed on the unmodified code with
        plain floats (table map), must give the results of the symbolic path (exact ties / thresholds can legitimately flip
        under rounding: mismatches are counted, not raised)."""
        try:
            table = ModelTable(model)
            thr = threshold_values(model, cfg)
            if any(v.get('orders', [])):
                thr['__orders__'] = [{k: list(p) for k, p in rec.items()} for rec in v['orders']]
            ctx = concrete_ctx(table, thr)
            a = [(None if r['states'] is None else list(r['states']), r['idx']) for r in v['results']]
            b = [(None if r['states'] is None else list(r['states']), r['idx']) for r in ctx['results']]
            if a != b:
                mismatch[0] += 1
        except Exception:
            mismatch[0] += 1
        return None

    if engine is None:
        engine = 'nra' if cfg.fam == 'dist' else 'lra'   # distance family: products of sqrt variables -> nlsat per query
    mk = runner.lra_engine(timeout_ms) if engine == 'lra' else runner.nra_engine(timeout_ms)
    if opts.get('false_first'):
        # unsharded instances cut by a time budget: start the depth-first enumeration in the other corner of the path space
        strat = 'inc' if engine == 'lra' else 'fresh'
        mk = lambda: E.Engine(timeout_ms=timeout_ms, strategy=strat, first=False)
    if mode == 'split':
        shims.uninstall()
        return dict(name=iname, prefixes=runner.split(mk, scenario, split_depth or 4), inst=inst[:6])
    if mode == 'replay':
        tab, thr = inst[7]
        if isinstance(tab, dict) and '__coords__' in tab:
            from .realise import GeoTable
            tab = GeoTable({k: tuple(c) for k, c in tab['__coords__'].items()})
        r = confirm_on_table(tab, thr)
        shims.uninstall()
        return r
    out = runner.explore(iname, mk, scenario, claims, confirm=confirm, witness=witness, budget_s=budget, root=prefix,
                         exc_is_violation=exc_is_violation, validate=validate, max_validate=3,
                         sample_fmt=lambda v: [(r['op'], repr(r['states']), r['idx']) for r in v['results']])
    shims.uninstall()
    if mismatch[0]:
        out['tags']['concolic_replay_differs_(tie_or_threshold_rounding)'] = mismatch[0]
        out['validated'] = max(0, out.get('validated', 0) - mismatch[0])
    if unrealised:
        # keep one representative per instance; the generic "did not reproduce" entries of the same paths are dropped
        out['candidates'] = [c for c in out['candidates'] if 'did not reproduce' not in c.get('desc', '')] + unrealised[:2]
        out['tags']['abstract_table_counterexample_not_realised'] = len(unrealised)
    return out


def run_all(rep, run_instance, insts, budget, core_s, split_depth=4, shard=True):
    """Split every instance into decision-prefix shards, run them over the pool, merge; fills rep.
    Returns merged per-instance results."""
    from .common import run_instances
    if not shard:
        return runner.merge_shards(run_instances(run_instance, [i + (budget,) for i in insts]))
    shards = []
    for r in run_instances(run_instance, [i + (budget, 'split') for i in insts]):
        if 'prefixes' not in r:
            rep.harness_errors.extend(r.get('errors', [f"split failed for {r.get('name')}"]))
            continue
        for pre in r['prefixes']:
            shards.append(tuple(r['inst'][:5]) + (None, 'run', pre))
    import random
    from .common import seed
    random.Random(seed()).shuffle(shards)       # VERIF_SEED: order in which the shards are handed to the pool
    per = max(5.0, min(budget, core_s / max(1, len(shards))))
    shards = [s[:5] + (per,) + s[6:] for s in shards]
    rep.extra['shards'] = len(shards)
    rep.extra['per_shard_budget_s'] = round(per, 1)
    return runner.merge_shards(run_instances(run_instance, shards))


def collect(rep, res, pid, need_tags=()):
    from .common import write_replay
    tags = {}
    for r in sorted(res, key=lambda r: r['name']):
        rep.add_instance(r)
        for t, n in r.get('tags', {}).items():
            tags[t] = tags.get(t, 0) + n
        for v in r.get('violations', []):
            fn = write_replay(pid, dict(property=pid, instance=r['name'], **{k: v[k] for k in v if k != 'desc'}, observed=v['desc']))
            rep.violations.append(dict(replay=fn, msg=f"{r['name']} claim={v['claim']}: {v['desc']}"))
        for c in r.get('candidates', []):
            rep.unconfirmed.append(f"{r['name']}: {c}")
    rep.extra['reachability_tags'] = tags
    for need in need_tags:
        if not tags.get(need):
            rep.harness_errors.append(f"vacuity: no path reached '{need}'")
    return tags


def replay(path, claims_fn, exc_is_violation=True):
    import json
    with open(path) as f:
        d = json.load(f)
    ops = [tuple(o) for o in d['ops']]
    tab = {'__coords__': d['coords']} if d.get('coords') else d['table']
    inst = ('replay', d['graph'], d['cfg'], ops, d.get('opts', {}), None, 'replay', (tab, d['thresholds']))
    r = run(inst, claims_fn, exc_is_violation=exc_is_violation)
    print(r['desc'] if r else "consistent: all claims hold on the concrete replay")
    return 1 if r else 0

"""Concrete (float) reference model used to confirm solver counterexamples on the unmodified code:
brute force over all walks of the documented state space, using only the map's public geometry functions.
Works on any map object with .G/.loc (TableMap) or an InMemMap (graph dict)."""
import math

LOG09 = math.log(0.9)
LOG05 = math.log(0.5)
MARGIN = 1e-7


def is_edge(s):
    return isinstance(s, tuple)


class CModel:
    def __init__(self, mp, cfg, path, max_dist=float('inf'), max_dist_init=None, min_logprob_norm=-float('inf')):
        self.mp = mp
        self.cfg = cfg
        self.path = path
        self.max_dist = max_dist
        self.max_dist_init = max_dist if max_dist_init is None else max_dist_init
        self.mlog = min_logprob_norm
        if hasattr(mp, 'G'):
            self.G = mp.G
            self.loc = mp.loc
            self.linked = mp.linked
            self.self_listed = mp.self_listed
        else:
            self.G = {k: list(v[1]) for k, v in mp.graph.items()}
            self.loc = {k: v[0] for k, v in mp.graph.items()}
            self.linked = mp.linked_edges or {}
            self.self_listed = True
        self.sigma2 = 2 * cfg.noise ** 2
        self.beta = 2 * cfg.noise ** 2
        self._geo = {}

    def edges(self):
        return [(u, v) for u in self.G for v in self.G[u] if u != v]

    def start_states(self):
        return self.edges() if self.cfg.only_edges else list(self.G)

    def succ(self, s):
        G = self.G
        if self.cfg.only_edges:
            u, v = s
            out = [s] + [(v, w) for w in G.get(v, []) if w != v]
            for (l3, l4) in self.linked.get(s, []):
                if l4 != v and l3 != u and (l3, l4) not in out:
                    out.append((l3, l4))
            return out
        if is_edge(s):
            return [s, s[1]]
        nb = [w for w in G.get(s, []) if w != s]
        return ([s] if self.self_listed else []) + nb + [(s, w) for w in nb]

    def geo(self, s, t):
        """(dist, proj point, ti) of observation t on state s."""
        k = (s, t)
        if k not in self._geo:
            o = self.path[t]
            if is_edge(s):
                d, pi, ti = self.mp.distance_point_to_segment(o, self.loc[s[0]], self.loc[s[1]])
            else:
                d, pi, ti = self.mp.distance(o, self.loc[s]), self.loc[s], 0
            self._geo[k] = (d, pi, ti)
        return self._geo[k]

    def em(self, s, t):
        d = self.geo(s, t)[0]
        return -d * d / self.sigma2

    def trans(self, p, s, t):
        if self.cfg.fam in ('simple', 'simple_n'):
            return 0.0 if p == s else LOG09
        dz = self.mp.distance(self.path[t - 1], self.path[t])
        pp, ps = self.geo(p, t - 1)[1], self.geo(s, t)[1]
        same = (p == s) or (p == (s[1], s[0]))
        connected = p[1] == s[0]
        if same or not connected:
            dx = self.mp.distance(pp, ps)
        else:
            dx = self.mp.distance(pp, self.loc[p[1]]) + self.mp.distance(self.loc[p[1]], ps)
        lp = -(dz - dx) ** 2 / self.beta
        if not same and not connected:
            lp += LOG05
        return lp

    def classify(self, w):
        """('in', score) if every prefix passes all cut-offs with margin, ('out', None) if some prefix fails with
        margin, ('edge', score) if within MARGIN of a threshold somewhere."""
        status = 'in'

        def cmp_le(a, b):      # a <= b ?
            nonlocal status
            if a <= b - MARGIN * max(1.0, abs(b) if b != float('inf') else 1.0):
                return True
            if a > b + MARGIN * max(1.0, abs(b) if b != float('inf') else 1.0):
                return False
            status = 'edge'
            return True
        d0 = self.geo(w[0], 0)[0]
        if not cmp_le(d0, self.max_dist_init) or not cmp_le(d0, self.max_dist):
            return 'out', None
        sc = self.em(w[0], 0)
        if not cmp_le(self.mlog, sc):
            return 'out', None
        for t in range(1, len(w)):
            s = w[t]
            d, _, ti = self.geo(s, t)
            if not self.cfg.only_edges and is_edge(s):
                for end in (0.0, 1.0):
                    if abs(ti - end) <= 1e-8 - 1e-10:
                        return 'out', None
                    if abs(ti - end) <= 1e-8 + 1e-10:
                        status = 'edge'
            sc += self.trans(w[t - 1], s, t) + self.em(s, t)
            if not cmp_le(d, self.max_dist) or not cmp_le(self.mlog, sc / (t + 1)):
                return 'out', None
        return status, sc

    def walks(self, k):
        ws = [[s] for s in self.start_states()]
        for _ in range(1, k):
            ws = [w + [s] for w in ws for s in self.succ(w[-1])]
        return ws

    def summary(self, T):
        """For k=1..T: best strictly-admissible score, and whether any walk is admissible / borderline."""
        out = {}
        for k in range(1, T + 1):
            best, any_in, any_edge = None, False, False
            for w in self.walks(k):
                st, sc = self.classify(w)
                if st == 'in':
                    any_in = True
                    if best is None or sc > best[0]:
                        best = (sc, w)
                elif st == 'edge':
                    any_edge = True
            out[k] = dict(best=best, any_in=any_in, any_edge=any_edge)
        return out


def check_c01(cm, T, states, idx, lattice_best):
    """Concrete C01 verdict for a real run.  Returns None if consistent, else a description."""
    summ = cm.summary(T)
    if not states:
        if summ[1]['any_in']:
            return f"empty result but an admissible start exists: {summ[1]['best']}"
        return None
    k = idx + 1
    if len(lattice_best) != k:
        return f"best path has {len(lattice_best)} states for index {idx}"
    got = [m.shortkey for m in lattice_best]
    st, sc = cm.classify(got)
    if st == 'out':
        return f"returned path {got} is not an admissible walk"
    L = float(lattice_best[-1].logprob)
    if sc is not None and abs(L - sc) > 1e-7 * max(1, abs(sc)):
        return f"reported logprob {L} != model score {sc} of returned path {got}"
    if k < T and summ[k + 1]['any_in']:
        return f"stopped at index {idx} but an admissible walk of length {k + 1} exists: {summ[k + 1]['best']}"
    if summ[k]['best'] is not None and summ[k]['best'][0] > L + 1e-7 * max(1, abs(L)):
        return f"returned path {got} score {L} < best admissible walk {summ[k]['best']}"
    return None

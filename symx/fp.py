"""QF_FP lemmas for the score arithmetic of BaseMatching.next, regenerated from the AST of the current source.

The assignment statements of the two branches (`if obs_ne == 0: ... else: ...`) that define new_logprob are
translated to IEEE-754 terms (round-nearest-even); the lemma says the 'monotonic probability' guard
(`new_logprob > self.logprob`) cannot fire when logprob_trans <= 0, logprob_obs <= 0 and ne_length_factor_log <= 0.
The translator is validated against the real function's arithmetic on sampled doubles."""
import ast
import inspect
import textwrap
import time

import z3


class FPTranslator(ast.NodeVisitor):
    def __init__(self, sort, env):
        self.sort = sort
        self.env = env
        self.rm = z3.RNE()

    def tr(self, node):
        if isinstance(node, ast.Name):
            return self.env[node.id]
        if isinstance(node, ast.Attribute):
            return self.env[ast.unparse(node)]
        if isinstance(node, ast.Constant):
            return z3.FPVal(float(node.value), self.sort)
        if isinstance(node, ast.BinOp) and isinstance(node.op, ast.Add):
            return z3.fpAdd(self.rm, self.tr(node.left), self.tr(node.right))
        if isinstance(node, ast.BinOp) and isinstance(node.op, ast.Sub):
            return z3.fpSub(self.rm, self.tr(node.left), self.tr(node.right))
        if isinstance(node, ast.Call) and getattr(node.func, 'id', None) == 'min' and len(node.args) == 2:
            a, b = self.tr(node.args[0]), self.tr(node.args[1])
            # Python: min(a, b) returns b only if b < a
            return z3.If(z3.fpLT(b, a), b, a)
        raise NotImplementedError(ast.dump(node))


def extract_branches(fn):
    """(stmts before the branch that define new_logprob_delta, emitting assignments, non-emitting assignments)."""
    src = textwrap.dedent(inspect.getsource(fn))
    tree = ast.parse(src).body[0]
    pre, em, ne = [], None, None
    for node in ast.walk(tree):
        if isinstance(node, ast.Assign) and getattr(node.targets[0], 'id', None) == 'new_logprob_delta':
            pre.append(node)
        if isinstance(node, ast.If) and ast.unparse(node.test) == 'obs_ne == 0':
            em = [s for s in node.body if isinstance(s, ast.Assign)]
            ne = [s for s in node.orelse if isinstance(s, ast.Assign)]
    if em is None or not pre:
        raise RuntimeError("cannot locate the score arithmetic in BaseMatching.next (source changed shape)")
    return pre, em, ne, src


def build(fn, sort):
    pre, em, ne, src = extract_branches(fn)
    names = ['logprob_trans', 'logprob_obs', 'self.logprob', 'self.logprobe', 'self.logprobne',
             'self.matcher.ne_length_factor_log']
    base = {n: z3.FP(n.replace('.', '_'), sort) for n in names}
    base['self.length'] = z3.FPVal(1.0, sort)

    def run(stmts):
        env = dict(base)
        t = FPTranslator(sort, env)
        for s in pre + stmts:
            tgt = s.targets[0].id
            if tgt in ('new_length',):
                continue
            env[tgt] = t.tr(s.value)
        return env
    return base, run(em), run(ne), [ast.unparse(s) for s in pre + em], [ast.unparse(s) for s in pre + ne]


def finite(x):
    return z3.Not(z3.Or(z3.fpIsNaN(x), z3.fpIsInf(x)))


def lemmas(fn, which, sort, timeout_s):
    """which in {'emitting','nonemitting'}; returns dict(result, seconds, statements)."""
    base, em, ne, sem, sne = build(fn, sort)
    zero = z3.FPVal(0.0, sort)
    tr, ob, lp, lpe, lpne, nf = [base[k] for k in ('logprob_trans', 'logprob_obs', 'self.logprob', 'self.logprobe',
                                                    'self.logprobne', 'self.matcher.ne_length_factor_log')]
    pre = [finite(x) for x in (tr, ob, lp, lpe, lpne, nf)] + [z3.fpLEQ(tr, zero), z3.fpLEQ(ob, zero), z3.fpLEQ(nf, zero),
                                                              z3.fpLEQ(lpne, zero)]
    s = z3.Solver()
    s.set('timeout', int(timeout_s * 1000))
    s.add(*pre)
    if which == 'emitting':
        s.add(z3.fpGT(em['new_logprob'], lp))
        stm = sem
    else:
        # representation invariant of a lattice entry: logprob = fl(logprobe + logprobne)
        s.add(lp == z3.fpAdd(z3.RNE(), lpe, lpne))
        s.add(z3.fpGT(ne['new_logprob'], lp))
        stm = sne
    t0 = time.time()
    r = s.check()
    out = dict(which=which, sort=str(sort), result=str(r), seconds=round(time.time() - t0, 1), statements=stm)
    if r == z3.sat:
        m = s.model()
        out['model'] = {str(d): str(m[d]) for d in m.decls()}
    return out


def validate_translation(fn, n=200, seed=0):
    """Evaluate the translated FP terms (Float64) on sampled doubles and compare with Python's arithmetic."""
    import random
    rnd = random.Random(seed)
    sort = z3.Float64()
    base, em, ne, _, _ = build(fn, sort)
    cnt = 0
    for _ in range(n):
        vals = dict(logprob_trans=-rnd.random() * 10 ** rnd.randint(-8, 2), logprob_obs=-rnd.random() * 10 ** rnd.randint(-8, 3),
                    self_logprob=-rnd.random() * 50, self_logprobe=-rnd.random() * 50, self_logprobne=-rnd.random() * 5,
                    self_matcher_ne_length_factor_log=-rnd.random())
        subs = [(z3.FP(k, sort), z3.FPVal(v, sort)) for k, v in vals.items()]
        delta = vals['logprob_trans'] + vals['logprob_obs']
        exp_em = vals['self_logprob'] + delta
        exp_ne = (vals['self_logprobe'] + vals['self_matcher_ne_length_factor_log']) + min(vals['self_logprobne'], delta)
        for term, exp in ((em['new_logprob'], exp_em), (ne['new_logprob'], exp_ne)):
            got = z3.simplify(z3.substitute(term, *subs))
            if not z3.is_true(z3.simplify(z3.fpEQ(got, z3.FPVal(exp, sort)))):
                raise SystemExit(f"harness error: FP translation disagrees with Python: {got} vs {exp} for {vals}")
            cnt += 1
    return cnt

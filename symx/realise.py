"""Geometric realisation of G-abs counterexamples.

A counterexample of an abstract-geometry run is a *table of distances*.  The matcher's non-emitting heuristics compare
distances, so a table that no planar configuration produces can make the matcher violate a claim that holds on every real
map.  Before a G-abs counterexample is reported it must therefore reproduce on REAL planar geometry: `GeoTable` answers the
same symbol keys as the solver's table, but from coordinates, through the repository's own dist_euclidean kernels; the
search tries least-squares embeddings of the solver's table plus random and jittered configurations.
"""
import math
import random


def split_top(s, sep):
    """split s at the top-level occurrences of the one-character separator (brackets nest)."""
    out, depth, cur = [], 0, []
    for ch in s:
        if ch == '[':
            depth += 1
        elif ch == ']':
            depth -= 1
        if ch == sep and depth == 0:
            out.append(''.join(cur))
            cur = []
        else:
            cur.append(ch)
    out.append(''.join(cur))
    return out


class GeoTable:
    """dict-like table ('d:<key>' -> distance, 't:<key>' -> relative position) computed from base point coordinates."""

    def __init__(self, coords):
        from leuvenmapmatching.util import dist_euclidean as de
        self.de = de
        self.coords = coords          # base point name -> (y, x)
        self.accessed = {}
        self._pt = {}

    # -- points -----------------------------------------------------------------------------
    def point(self, name):
        if name in self._pt:
            return self._pt[name]
        if name in self.coords:
            p = tuple(self.coords[name])
        elif name.startswith('proj:'):
            p, a, b = self.parse_ps(name[5:])
            p = tuple(self.de.distance_point_to_segment(self.point(p), self.point(a), self.point(b))[1])
        elif name.startswith('pf:') or name.startswith('pt:'):
            f1, f2, t1, t2 = self.parse_ss(name[3:])
            r = self.de.distance_segment_to_segment(self.point(f1), self.point(f2), self.point(t1), self.point(t2))
            p = tuple(r[1] if name.startswith('pf:') else r[2])
        else:
            raise KeyError(f"unknown point name {name}")
        self._pt[name] = p
        return p

    @staticmethod
    def inner(key, head):
        if not (key.startswith(head + '[') and key.endswith(']')):
            raise KeyError(key)
        return key[len(head) + 1:-1]

    def parse_ps(self, key):
        p, seg = split_top(self.inner(key, 'ps'), '|')
        a, b = split_top(seg, '>')
        return p, a, b

    def parse_ss(self, key):
        f, t = split_top(self.inner(key, 'ss'), '|')
        f1, f2 = split_top(f, '>')
        t1, t2 = split_top(t, '>')
        return f1, f2, t1, t2

    # -- table ------------------------------------------------------------------------------
    def get(self, k, default=None):
        if k in self.accessed:
            return self.accessed[k]
        kind, key = k[:2], k[2:]
        if kind == 'd:':
            if key.startswith('pp['):
                a, b = split_top(self.inner(key, 'pp'), '|')
                v = self.de.distance(self.point(a), self.point(b))
            elif key.startswith('ps['):
                p, a, b = self.parse_ps(key)
                v = self.de.distance_point_to_segment(self.point(p), self.point(a), self.point(b))[0]
            elif key.startswith('ss['):
                f1, f2, t1, t2 = self.parse_ss(key)
                v = self.de.distance_segment_to_segment(self.point(f1), self.point(f2), self.point(t1), self.point(t2))[0]
            else:
                raise KeyError(k)
        else:
            if key.startswith('ps['):
                p, a, b = self.parse_ps(key)
                v = self.de.distance_point_to_segment(self.point(p), self.point(a), self.point(b))[2]
            elif key.startswith('f:ss[') or key.startswith('t:ss['):
                f1, f2, t1, t2 = self.parse_ss(key[2:])
                r = self.de.distance_segment_to_segment(self.point(f1), self.point(f2), self.point(t1), self.point(t2))
                v = r[3] if key.startswith('f:') else r[4]
            else:
                raise KeyError(k)
        v = float(v)
        self.accessed[k] = v
        return v


def base_names(graph, canon, ops):
    names = [f"n{(canon or {}).get(n, n)}" for n in graph]
    T = max([o[1] for o in ops if o[0] in ('match', 'extend', 'match2', 'match_u')] + [1])
    names += [f"o{i}" for i in range(T)]
    if any(o[0] == 'match2' for o in ops):
        names += [f"x{i}" for i in range(T)]
    return names


def embeddings(names, table, rnd, n_fit=6, n_random=40, n_jitter=6):
    """candidate coordinate assignments: least-squares fits of the table's base distances, jittered fits, random ones."""
    base = {}
    for k, v in table.items():
        if not k.startswith('d:'):
            continue
        key = k[2:]
        try:
            if key.startswith('pp['):
                a, b = split_top(key[3:-1], '|')
                if a in names and b in names:
                    base[('pp', a, b)] = float(v)
            elif key.startswith('ps['):
                p, seg = split_top(key[3:-1], '|')
                a, b = split_top(seg, '>')
                if p in names and a in names and b in names:
                    base[('ps', p, a, b)] = float(v)
        except Exception:
            continue
    scale = max([v for v in base.values()] + [1.0])
    idx = {n: i for i, n in enumerate(names)}

    def unpack(x):
        return {n: (x[2 * i], x[2 * i + 1]) for n, i in idx.items()}

    def c_ps(p, a, b):
        vx, vy = b[0] - a[0], b[1] - a[1]
        l2 = vx * vx + vy * vy
        if l2 == 0:
            return math.hypot(p[0] - a[0], p[1] - a[1])
        t = max(0.0, min(1.0, ((p[0] - a[0]) * vx + (p[1] - a[1]) * vy) / l2))
        return math.hypot(p[0] - a[0] - t * vx, p[1] - a[1] - t * vy)

    def resid(x):
        c = unpack(x)
        out = []
        for k, v in base.items():
            if k[0] == 'pp':
                out.append(math.hypot(c[k[1]][0] - c[k[2]][0], c[k[1]][1] - c[k[2]][1]) - v)
            else:
                out.append(c_ps(c[k[1]], c[k[2]], c[k[3]]) - v)
        return out
    fits = []
    if base:
        try:
            from scipy.optimize import least_squares
            for _ in range(n_fit):
                x0 = [rnd.uniform(-scale, scale) for _ in range(2 * len(names))]
                r = least_squares(resid, x0, max_nfev=200)
                fits.append(list(r.x))
        except Exception:
            pass
    for x in fits:
        yield unpack(x)
        for _ in range(n_jitter):
            yield unpack([v + rnd.gauss(0, 0.05 * scale) for v in x])
    for _ in range(n_random):
        s = rnd.choice([0.5, 1.0, 2.0]) * scale
        yield unpack([rnd.uniform(-s, s) for _ in range(2 * len(names))])


def realise(confirm_on_table, names, table, thr, seed=0, budget=120):
    """Search for real planar coordinates on which the concrete replay still violates a claim.
    confirm_on_table(table_like, thresholds) -> None | dict.  Returns (dict with 'coords' added) or None."""
    rnd = random.Random(seed)
    tried = 0
    thr_variants = [thr]
    if any(v not in (float('inf'), -float('inf')) for v in thr.values() if isinstance(v, float)):
        thr_variants.append({k: (v * 1.5 if isinstance(v, float) and k.startswith('max_dist') else v) for k, v in thr.items()})
    for coords in embeddings(names, dict(table), rnd):
        for th in thr_variants:
            tried += 1
            if tried > budget:
                return None
            try:
                r = confirm_on_table(GeoTable(coords), dict(th))
            except KeyError:
                r = None
            if r:
                r['coords'] = {k: list(v) for k, v in coords.items()}
                r['realised_after'] = tried
                return r
    return None

"""G-real: the real InMemMap and the real planar kernels executed by SYMX on concrete small layouts with symbolic
observations (2-D on axis-parallel layouts, or on a horizontal line y=const for general-position layouts)."""
import math

import z3

from . import engine as E
from . import shims, runner
from .matchlib import Cfg, make_matcher, concrete_thresholds, threshold_values

LAYOUTS = {
    # name: (graph {label: ((y, x), [nbrs])}, axis_parallel)
    'line2': ({"A": ((0.0, 0.0), ["B"]), "B": ((0.0, 1.0), ["A"])}, True),
    'oneway2': ({"A": ((0.0, 0.0), ["B"]), "B": ((0.0, 1.0), [])}, True),
    'line3': ({"A": ((0.0, 0.0), ["B"]), "B": ((0.0, 1.0), ["A", "C"]), "C": ((0.0, 2.0), ["B"])}, True),
    'oneway3': ({"A": ((0.0, 0.0), ["B"]), "B": ((0.0, 1.0), ["C"]), "C": ((0.0, 2.0), [])}, True),
    'corner3': ({"A": ((0.0, 0.0), ["B"]), "B": ((0.0, 1.0), ["C"]), "C": ((1.0, 1.0), [])}, True),
    'oneway4': ({"A": ((0.0, 0.0), ["B"]), "B": ((0.0, 1.0), ["C"]), "C": ((0.0, 2.0), ["D"]), "D": ((0.0, 3.0), [])}, True),
    'zerolen3': ({"A": ((0.0, 0.0), ["B"]), "B": ((0.0, 1.0), ["C"]), "C": ((0.0, 1.0), [])}, True),
    'dash4': ({"A": ((0.0, 0.0), ["B-C"]), "B-C": ((0.0, 1.0), []), "A-B": ((1.0, 0.0), ["C"]), "C": ((1.0, 1.0), [])}, True),
    'tiny2': ({"A": ((0.0, 0.0), ["B"]), "B": ((0.0, 8e-05), ["A"])}, True),
    'tri': ({"A": ((0.0, 0.0), ["B"]), "B": ((0.0, 1.0), ["C"]), "C": ((1.0, 0.0), ["A"])}, False),
    'fork': ({"A": ((0.0, 0.0), ["B"]), "B": ((0.0, 1.0), ["C", "D"]), "C": ((1.0, 2.0), []), "D": ((-1.0, 2.0), [])}, False),
    # two-way road a-b, one-way parallel road p->q; only the direction (a,b) is linked to the parallel edge (see LINKED)
    'par_link': ({"a": ((0.0, 0.0), ["b"]), "b": ((0.0, 1.0), ["a"]), "p": ((0.3, 0.0), ["q"]), "q": ((0.3, 1.0), [])}, True),
}
LINKED = {'par_link': {("a", "b"): [("p", "q")]}}


def make_path(eng, T, mode, triples=False, ys=(0.25, 0.5, -0.25, 0.75), scale=1.0):
    """mode '2d': both coordinates symbolic; '1d': y fixed from ys, x symbolic."""
    path = []
    for i in range(T):
        x = eng.fresh(f"ox{i}")
        y = eng.fresh(f"oy{i}") if mode == '2d' else ys[i % len(ys)] * scale
        path.append((y, x, Timestamp(i)) if triples else (y, x))
    return path


class Timestamp:
    """opaque time component of an observation (must never take part in arithmetic)."""

    def __init__(self, i):
        self.i = i

    def __repr__(self):
        return f"<t{self.i}>"

    def __format__(self, spec):
        return f"<t{self.i}>"


def concrete_path(model, path):
    out = []
    for p in path:
        q = tuple(E.model_value(model, c.t) if isinstance(c, E.Sym) else (float(c) if not isinstance(c, Timestamp) else 1000.0 + c.i)
                  for c in p)
        out.append(q)
    return out


def new_map(layout, use_latlon=False):
    from leuvenmapmatching.map.inmem import InMemMap
    g, _ = LAYOUTS[layout]
    kw = {}
    if layout in LINKED:
        kw['linked_edges'] = {k: list(v) for k, v in LINKED[layout].items()}
    return InMemMap("m", graph={k: (v[0], list(v[1])) for k, v in g.items()}, use_latlon=use_latlon, **kw)


def c_pt_seg(p, a, b):
    vx, vy = b[0] - a[0], b[1] - a[1]
    l2 = vx * vx + vy * vy
    if l2 == 0:
        return math.hypot(p[0] - a[0], p[1] - a[1])
    t = max(0.0, min(1.0, ((p[0] - a[0]) * vx + (p[1] - a[1]) * vy) / l2))
    return math.hypot(p[0] - a[0] - t * vx, p[1] - a[1] - t * vy)


def c_seg_seg(f1, f2, t1, t2):
    def orient(a, b, c):
        return (b[0] - a[0]) * (c[1] - a[1]) - (b[1] - a[1]) * (c[0] - a[0])
    o1, o2, o3, o4 = orient(f1, f2, t1), orient(f1, f2, t2), orient(t1, t2, f1), orient(t1, t2, f2)
    if o1 * o2 < 0 and o3 * o4 < 0:
        return 0.0
    return min(c_pt_seg(f1, t1, t2), c_pt_seg(f2, t1, t2), c_pt_seg(t1, f1, f2), c_pt_seg(t2, f1, f2))

"""Shared plumbing: import of the code under test from /repo, evidence files, known findings, replay files,
process pool."""
import hashlib
import inspect
import json
import multiprocessing as mp
import os
import sys
import time
import traceback

VERIF = os.path.dirname(os.path.dirname(os.path.abspath(__file__)))
REPO = os.environ.get('LMM_REPO', '/repo')
EXIT_OK, EXIT_VIOLATION, EXIT_HARNESS = 0, 1, 3
# seed testing only (seed_test.sh): LMM_REPO points the checks at a scratch copy of the repository with a seeded change applied,
# VERIF_OUT redirects evidence/ and replays/ so that the committed evidence always comes from runs against /repo itself.
OUT = os.environ.get('VERIF_OUT', VERIF)


def import_repo():
    """Put /repo first on sys.path and make sure the package under test is the working tree, not the
    copy installed in /venv."""
    if REPO in sys.path:
        sys.path.remove(REPO)
    sys.path.insert(0, REPO)
    os.environ.setdefault('LMM_VERIF', '1')
    import leuvenmapmatching
    f = os.path.realpath(leuvenmapmatching.__file__)
    if not f.startswith(os.path.realpath(REPO) + os.sep):
        raise SystemExit(f"harness error: leuvenmapmatching imported from {f}, not from {REPO}")
    import logging
    lg = logging.getLogger("be.kuleuven.cs.dtai.mapmatching")
    lg.setLevel(logging.ERROR)
    if not lg.handlers:
        lg.addHandler(logging.NullHandler())
    return leuvenmapmatching


def src_hash(*objs):
    """sha1 of the current source text of the given functions/classes (encoding is regenerated from it)."""
    out = {}
    for o in objs:
        try:
            src = inspect.getsource(o)
            name = getattr(o, '__qualname__', getattr(o, '__name__', str(o)))
            mod = getattr(o, '__module__', '')
            out[f"{mod}.{name}"] = hashlib.sha1(src.encode()).hexdigest()[:12]
        except Exception as e:  # pragma: no cover
            out[str(o)] = f"unavailable: {e}"
    return out


def seed():
    try:
        return int(os.environ.get('VERIF_SEED', '0'))
    except ValueError:
        return 0


# --------------------------------------------------------------------------------------------- findings
def load_findings(pid):
    fn = os.path.join(VERIF, 'known_findings.json')
    if not os.path.exists(fn):
        return []
    with open(fn) as f:
        data = json.load(f)
    return [e for e in data.get('findings', []) if e.get('property') == pid and e.get('status') == 'known']


def write_replay(pid, payload):
    d = os.path.join(OUT, 'replays')
    os.makedirs(d, exist_ok=True)
    blob = json.dumps(payload, sort_keys=True, default=str)
    h = hashlib.sha1(blob.encode()).hexdigest()[:10]
    fn = os.path.join(d, f"{pid}-{h}.json")
    with open(fn, 'w') as f:
        json.dump(payload, f, indent=1, sort_keys=True, default=str)
    return fn


# --------------------------------------------------------------------------------------------- results
class Report:
    """Accumulates what a check covered and produces the evidence file + exit code."""

    def __init__(self, pid, tier):
        self.pid = pid
        self.tier = tier
        self.t0 = time.time()
        self.paths = 0            # symbolic paths whose final assertion was decided unsat
        self.paths_total = 0
        self.inconclusive = 0
        self.decisions = 0
        self.queries = 0
        self.solver_s = 0.0
        self.validated = 0        # concrete replays of solver models against the real code
        self.witnesses = 0        # reachability twins that came back sat
        self.violations = []      # list of dict(kind=..., replay=..., msg=...)
        self.known_hits = []
        self.unconfirmed = []
        self.samples = []
        self.instances = []
        self.functions = {}
        self.assumptions = []
        self.bounds = {}
        self.outside = []
        self.harness_errors = []
        self.extra = {}
        self.complete = True

    def merge_stats(self, st):
        self.decisions += st.get('decisions', 0)
        self.queries += st.get('queries', 0)
        self.solver_s += st.get('solver_s', 0.0)

    def add_instance(self, inst):
        """inst: dict from a worker (see run_instances)."""
        self.instances.append({k: inst[k] for k in inst if k not in ('samples', 'violations', 'candidates', 'errors')})
        self.paths_total += inst.get('paths', 0)
        self.paths += inst.get('discharged', 0)
        self.inconclusive += inst.get('inconclusive', 0)
        self.decisions += inst.get('decisions', 0)
        self.queries += inst.get('queries', 0)
        self.solver_s += inst.get('solver_s', 0.0)
        self.validated += inst.get('validated', 0)
        self.witnesses += inst.get('witnesses', 0)
        if not inst.get('complete', True):
            self.complete = False
        for s in inst.get('samples', [])[:2]:
            if len(self.samples) < 12:
                self.samples.append(s)
        for e in inst.get('errors', []):
            self.harness_errors.append(e)

    def finish(self, technique, level='model_checking'):
        wall = time.time() - self.t0
        ev = {
            "property_id": self.pid,
            "tier": self.tier,
            "seed": seed(),
            "level": level,
            "coverage": {
                "states": max(self.paths_total, 1),
                "transitions": max(self.decisions, 1),
                "traces_validated_against_impl": self.validated,
                "samples": self.samples or ["(no sample recorded)"],
                "exhaustive": bool(self.complete and self.inconclusive == 0),
                "explanation": technique,
                "symbolic_paths_explored": self.paths_total,
                "paths_discharged_unsat": self.paths,
                "paths_inconclusive": self.inconclusive,
                "reachability_witnesses": self.witnesses,
                "solver_queries": self.queries,
                "solver_seconds": round(self.solver_s, 2),
                "functions_encoded": self.functions,
                "bounds": self.bounds,
                "outside_claim": self.outside,
                "instances": self.instances[:200],
                "known_findings_hit": self.known_hits,
                "unconfirmed_candidates": self.unconfirmed[:20],
                "harness_errors": self.harness_errors[:20],
            },
            "assumptions": self.assumptions,
            "wall_s": round(wall, 2),
            "violations": len(self.violations),
        }
        ev["coverage"].update(self.extra)
        os.makedirs(os.path.join(OUT, 'evidence'), exist_ok=True)
        with open(os.path.join(OUT, 'evidence', f"{self.pid}.json"), 'w') as f:
            json.dump(ev, f, indent=1, default=str)
        for k in self.known_hits:
            print(f"KNOWN-FINDING: property={self.pid} {k}")
        for u in self.unconfirmed[:10]:
            print(f"UNCONFIRMED-CANDIDATE: property={self.pid} {u}")
        print(f"[{self.pid}] tier={self.tier} paths={self.paths_total} discharged={self.paths} "
              f"inconclusive={self.inconclusive} witnesses={self.witnesses} validated={self.validated} "
              f"queries={self.queries} solver_s={self.solver_s:.1f} wall_s={wall:.1f}")
        if self.violations:
            for v in self.violations:
                print(f"VIOLATION property={self.pid} replay={v['replay']}")
                print(f"  {v.get('msg', '')}")
            return EXIT_VIOLATION
        if self.harness_errors:
            for e in self.harness_errors[:10]:
                print(f"HARNESS-ERROR: {e}")
            return EXIT_HARNESS
        if self.paths == 0:
            print("HARNESS-ERROR: nothing was decided")
            return EXIT_HARNESS
        return EXIT_OK


# --------------------------------------------------------------------------------------------- pool
def _call(args):
    fn, a = args
    t0 = time.time()
    try:
        r = fn(a)
    except BaseException as e:  # worker must never die silently
        r = {'name': str(a), 'errors': [f"worker crashed on {a}: {type(e).__name__}: {e}\n{traceback.format_exc()[-1500:]}"]}
    r.setdefault('name', str(a))
    r['wall_s'] = round(time.time() - t0, 2)
    return r


def run_instances(fn, items, procs=None):
    """Run fn(item)->dict over items in a process pool (fork; workers inherit the imported repo)."""
    items = list(items)
    procs = procs or min(len(items), int(os.environ.get('VERIF_PROCS', '16'))) or 1
    if procs <= 1 or len(items) <= 1:
        return [_call((fn, it)) for it in items]
    ctx = mp.get_context('fork')
    with ctx.Pool(procs, maxtasksperchild=1) as pool:
        return list(pool.imap_unordered(_call, [(fn, it) for it in items], chunksize=1))


def fit_budget(n_instances, tier, quick_s, cap_quick, thorough_wall_s=900, cap_thorough=900):
    """Per-instance time budget so that n instances on 16 cores finish in about the tier's wall-time target."""
    if tier == 'quick':
        return min(cap_quick, quick_s)
    return max(20.0, min(cap_thorough, 16.0 * thorough_wall_s / max(1, n_instances)))

"""Matcher construction with symbolic configuration, and the independent reference model (oracle) of the
documented HMM: state space, emission / transition terms, cut-off predicates, walk enumeration.

The oracle is written from the documentation of the matchers, not from their code paths; it uses the same
*symbols* as the abstract map (so that scores are comparable inside the solver) but none of the matcher code.
"""
import math

import z3

from . import engine as E
from . import shims
from .absmap import P, key_pp, key_ps, t_of, make_absmap_class, make_tablemap_class

TOL = z3.Q(1, 10 ** 9)
LOG09 = math.log(0.9)
LOG05 = math.log(0.5)
LOG099 = math.log(0.99)


class Cfg:
    """One matcher configuration family."""

    def __init__(self, fam='simple', T=2, ne=False, sym_maxdist=True, sym_init=True, sym_minprob=True,
                 width=None, noise=1.0, noise_ne=None, goingback=False, nelf=0.75, sym_nelf=False,
                 self_listed=True, linked=None, order=None, relabel=None, scale=None):
        self.fam = fam                  # 'simple' (edges), 'simple_n' (nodes+edges), 'dist'
        self.T = T
        self.ne = ne
        self.sym_maxdist = sym_maxdist
        self.sym_init = sym_init
        self.sym_minprob = sym_minprob
        self.width = width
        self.noise = noise
        self.noise_ne = noise_ne
        self.goingback = goingback
        self.nelf = nelf
        self.sym_nelf = sym_nelf
        self.self_listed = self_listed
        # linked parallel edges: dict {edge: [edges]} or JSON-friendly list [[edge, [edges]], ...]
        if isinstance(linked, (list, tuple)):
            linked = {tuple(k): [tuple(e) for e in v] for k, v in linked}
        self.linked = linked
        self.order = order
        self.relabel = relabel      # list of [old, new] label pairs applied to the graph (geometry symbols keep the old names)
        self.scale = scale          # positive constant: every map distance and every distance parameter is multiplied by it

    @property
    def only_edges(self):
        return self.fam != 'simple_n'

    def describe(self):
        return (f"{self.fam} T={self.T} ne={int(self.ne)} W={self.width} sym(max_dist={int(self.sym_maxdist)},"
                f"init={int(self.sym_init)},min_prob={int(self.sym_minprob)}) noise={self.noise}"
                + (f" goingback" if self.goingback else "") + (f" linked={self.linked}" if self.linked else ""))


def sym_threshold(eng, name, scale=None):
    """A symbolic distance threshold d = sqrt(q), q >= 0, compared through its radicand (times scale)."""
    q = z3.Real(name + "_sq")
    eng.assume(q >= 0)
    if scale is None:
        return eng.sqrt_of(q, name=name)
    c = E.rv(scale)
    return eng.sqrt_of(c * c * q, name=f"{name}_x{scale}")


def make_matcher(eng, mp, cfg, suffix=""):
    """A real matcher object on map `mp`, symbolic thresholds installed after construction."""
    from leuvenmapmatching.matcher.simple import SimpleMatcher
    from leuvenmapmatching.matcher.distance import DistanceMatcher
    sc = 1.0 if cfg.scale is None else cfg.scale
    kw = dict(non_emitting_states=cfg.ne, obs_noise=cfg.noise * sc, avoid_goingback=cfg.goingback,
              max_lattice_width=cfg.width, non_emitting_length_factor=cfg.nelf)
    if cfg.noise_ne is not None:
        kw['obs_noise_ne'] = cfg.noise_ne * sc
    if cfg.fam == 'dist':
        mt = DistanceMatcher(mp, **kw)
    else:
        mt = SimpleMatcher(mp, only_edges=cfg.only_edges, **kw)
        mt.obs_noise_dist = shims.HalfNormShim(mt.obs_noise)
        mt.obs_noise_dist_ne = shims.HalfNormShim(mt.obs_noise_ne)
    install_thresholds(eng, mt, cfg)
    return mt


def install_thresholds(eng, mt, cfg):
    if eng is None:
        return
    if cfg.sym_maxdist:
        mt.max_dist = sym_threshold(eng, "max_dist", cfg.scale)
        mt.max_dist_init = mt.max_dist
    if cfg.sym_init:
        mt.max_dist_init = sym_threshold(eng, "max_dist_init", cfg.scale)
    if cfg.sym_minprob:
        ml = z3.Real("min_logprob_norm")
        eng.assume(ml <= 0)
        mt.min_logprob_norm = E.Sym(ml)
    if cfg.sym_nelf:
        nl = z3.Real("ne_length_factor_log")
        eng.assume(nl <= 0)
        mt.ne_length_factor_log = E.Sym(nl)


def concrete_thresholds(mt, cfg, vals):
    """Install concrete threshold values (from a model) on a matcher for replay."""
    inf = float('inf')
    sc = 1.0 if cfg.scale is None else cfg.scale
    if cfg.sym_maxdist:
        mt.max_dist = vals.get('max_dist', inf) * sc
        mt.max_dist_init = mt.max_dist
    if cfg.sym_init:
        mt.max_dist_init = vals.get('max_dist_init', inf) * sc
    if cfg.sym_minprob:
        mt.min_logprob_norm = vals.get('min_logprob_norm', -inf)
    if cfg.sym_nelf:
        mt.ne_length_factor_log = vals.get('ne_length_factor_log', math.log(cfg.nelf))


def threshold_values(model, cfg):
    """Concrete thresholds of a model; a threshold the model does not mention is unconstrained on this path and is
    replayed as 'no cut-off' (inf / -inf) rather than as the completion value 0."""
    names = {d.name() for d in model.decls()}
    v = {}
    if cfg.sym_maxdist:
        v['max_dist'] = max(E.model_value(model, z3.Real("max_dist_sq")), 0.0) ** 0.5 if "max_dist_sq" in names else float('inf')
    if cfg.sym_init:
        v['max_dist_init'] = max(E.model_value(model, z3.Real("max_dist_init_sq")), 0.0) ** 0.5 if "max_dist_init_sq" in names else float('inf')
    if cfg.sym_minprob:
        v['min_logprob_norm'] = E.model_value(model, z3.Real("min_logprob_norm")) if "min_logprob_norm" in names else -float('inf')
    if cfg.sym_nelf:
        v['ne_length_factor_log'] = E.model_value(model, z3.Real("ne_length_factor_log")) if "ne_length_factor_log" in names else math.log(cfg.nelf)
    return v


def obs_path(T, triples=False):
    return [P(f"o{i}") for i in range(T)]


# =================================================================================================== oracle
def is_edge(s):
    return isinstance(s, tuple)


class Oracle:
    """Reference model of the documented HMM over the abstract map's symbols (emitting-only part)."""

    def __init__(self, mp, mt, cfg):
        self.mp = mp
        self.mt = mt
        self.cfg = cfg
        self.G = mp.G
        self.sigma2 = 2 * cfg.noise ** 2            # emission: -d^2 / (2 sigma^2)
        self.beta = 2 * cfg.noise ** 2              # distance family: dist_noise defaults to obs_noise

    # ---- state space -----------------------------------------------------------------------
    def states(self):
        es = self.mp.edges()
        if self.cfg.only_edges:
            return es
        return list(self.G) + es

    def start_states(self):
        return self.mp.edges() if self.cfg.only_edges else list(self.G)

    def succ(self, s):
        """Moves the map offers from state s (documented move set)."""
        G = self.G
        if self.cfg.only_edges:
            u, v = s
            out = [s] + [(v, w) for w in G.get(v, []) if w != v]
            for (l3, l4) in self.mp.linked.get(s, []):
                if l4 != v and l3 != u and (l3, l4) not in out:
                    out.append((l3, l4))
            return out
        if is_edge(s):
            u, v = s
            return [s, v]
        nb = [w for w in G.get(s, []) if w != s]
        stay = [s] if self.mp.self_listed else []
        return stay + nb + [(s, w) for w in nb]

    def walks(self, k):
        ws = [[s] for s in self.start_states()]
        for _ in range(1, k):
            ws = [w + [s] for w in ws for s in self.succ(w[-1])]
        return ws

    # ---- geometry symbols ------------------------------------------------------------------
    def obs(self, t):
        return f"o{t}"

    def q_obs(self, s, t):
        """squared distance observation t <-> state s."""
        if is_edge(s):
            return self.mp.q(key_ps(self.obs(t), f"n{s[0]}", f"n{s[1]}"))
        return self.mp.q(key_pp(self.obs(t), f"n{s}"))

    def t_obs(self, s, t):
        return E.lift(t_of(self.mp, key_ps(self.obs(t), f"n{s[0]}", f"n{s[1]}"), f"n{s[0]}", f"n{s[1]}"))

    def proj_name(self, s, t):
        if is_edge(s):
            return "proj:" + key_ps(self.obs(t), f"n{s[0]}", f"n{s[1]}")
        return f"n{s}"

    def D(self, a, b):
        """distance symbol (aux sqrt var term) between two named points; 0 if identical."""
        if a == b:
            return z3.RealVal(0)
        return self.mp.sq(key_pp(a, b)).t

    # ---- model terms -----------------------------------------------------------------------
    def em(self, s, t):
        return -self.q_obs(s, t) / E.rv(self.sigma2)

    def label(self, s):
        return f"{s[0]}-{s[1]}" if is_edge(s) else s

    def trans(self, p, s, t):
        """transition term for moving from state p (at observation t-1) to state s (at observation t)."""
        if self.cfg.fam in ('simple', 'simple_n'):
            if p == s:
                return z3.RealVal(0)   # going back on the same edge is only penalised with avoid_goingback
            return E.rv(LOG09)
        # distance family
        dz = self.D(self.obs(t - 1), self.obs(t))
        pp, ps = self.proj_name(p, t - 1), self.proj_name(s, t)
        same = (p == s) or (p == (s[1], s[0]))
        connected = p[1] == s[0]
        if same or not connected:
            dx = self.D(pp, ps)
        else:
            dx = self.D(pp, f"n{p[1]}") + self.D(f"n{p[1]}", ps)
        lp = -((dz - dx) * (dz - dx)) / E.rv(self.beta)
        if not same and not connected:
            lp = lp + E.rv(LOG05)
        return lp

    def score(self, w):
        sc = self.em(w[0], 0)
        for t in range(1, len(w)):
            sc = sc + self.trans(w[t - 1], w[t], t) + self.em(w[t], t)
        return sc

    # ---- cut-offs --------------------------------------------------------------------------
    def _md2(self, which):
        v = getattr(self.mt, which)
        if isinstance(v, E.Sym):
            return v.sq
        if v == float('inf'):
            return None
        return E.rv(v) * E.rv(v)

    def is_state_at(self, s, t):
        """node-and-edge model: an edge whose projection falls on an end point is not a state."""
        if self.cfg.only_edges or not is_edge(s):
            return z3.BoolVal(True)
        tt = self.t_obs(s, t)
        eps = z3.Q(1, 10 ** 8)
        return z3.Not(z3.Or(z3.And(tt <= eps, tt >= -eps), z3.And(tt - 1 <= eps, tt - 1 >= -eps)))

    def dist_ok(self, s, t, which='max_dist', strict=False):
        m = self._md2(which)
        if m is None:
            return z3.BoolVal(True)
        q = self.q_obs(s, t)
        return q < m if strict else q <= m

    def dist_ok_margin(self, s, t, which='max_dist', margin=z3.Q(1, 10 ** 4)):
        """within the cut-off with room to spare (used for robust counterexamples that survive the float replay)."""
        m = self._md2(which)
        if m is None:
            return z3.BoolVal(True)
        return self.q_obs(s, t) + margin <= m

    def prob_ok(self, sc, length, band=None):
        ml = self.mt.min_logprob_norm
        if not isinstance(ml, E.Sym):
            if ml == -float('inf'):
                return z3.BoolVal(True)
            ml = E.rv(ml)
        else:
            ml = ml.t
        if band is None:
            return sc / length >= ml
        return sc / length >= ml + band

    def adm(self, w, band=None):
        """every prefix of walk w passes the cut-offs (band: shift of the probability threshold, see near())."""
        cs = [self.dist_ok(w[0], 0, 'max_dist_init', strict=True)]
        sc = self.em(w[0], 0)
        cs += [self.dist_ok(w[0], 0), self.prob_ok(sc, 1, band)]
        for t in range(1, len(w)):
            sc = sc + self.trans(w[t - 1], w[t], t) + self.em(w[t], t)
            cs += [self.is_state_at(w[t], t), self.dist_ok(w[t], t), self.prob_ok(sc, t + 1, band)]
        return z3.And(*cs)

    def adm_strict(self, w):
        """admissible with margin: stays admissible if the probability threshold moves by 1e-9."""
        return self.adm(w, band=TOL)

    def adm_loose(self, w):
        return self.adm(w, band=-TOL)

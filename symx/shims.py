"""Installation / removal of the shims inside the modules under test (module-level name replacement only;
no file under /repo is touched)."""
import contextlib
import math

import numpy

from . import engine as E


def _mods():
    from leuvenmapmatching.util import dist_euclidean as de
    from leuvenmapmatching.matcher import base as mb
    return de, mb


def install(max_ceil=6):
    de, mb = _mods()
    de.math = E.ShimMath(max_ceil=max_ceil)
    de.np = E.ShimNp()
    de.min = E.smin
    de.max = E.smax
    mb.min = E.smin
    mb.max = E.smax


def uninstall():
    de, mb = _mods()
    de.math = math
    de.np = numpy
    for m in (de, mb):
        for n in ('min', 'max'):
            if n in m.__dict__:
                del m.__dict__[n]


@contextlib.contextmanager
def concrete():
    """Run the unmodified code (no shim installed) inside the block, e.g. to replay a solver model."""
    de, mb = _mods()
    was = isinstance(de.__dict__.get('math'), E.ShimMath)
    uninstall()
    try:
        yield
    finally:
        if was:
            install()


class HalfNormShim:
    """scipy.stats.halfnorm(scale).logpdf by scipy's documented formula: log(sqrt(2/pi)) - log(scale) - x^2/(2 scale^2).
    Validated against scipy on a grid at harness start (selftest_halfnorm)."""

    def __init__(self, scale):
        self.scale = scale

    def logpdf(self, x):
        return math.log(math.sqrt(2 / math.pi)) - math.log(self.scale) - (x * x) / (2 * self.scale ** 2)


def selftest_halfnorm():
    from scipy.stats import halfnorm
    n = 0
    for scale in (0.5, 1.0, 2.0, 10.0):
        h = HalfNormShim(scale)
        for x in (0.0, 1e-9, 0.1, 0.5, 1.0, 3.3, 25.0):
            a, b = float(halfnorm(scale=scale).logpdf(x)), h.logpdf(x)
            if abs(a - b) > 1e-12 * max(1.0, abs(a)):
                raise SystemExit(f"harness error: halfnorm shim disagrees with scipy at scale={scale} x={x}: {a} vs {b}")
            n += 1
    return n

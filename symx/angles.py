"""Angle algebra: a SYMX value domain for dist_latlon.  An angle is carried as the pair (sin, cos) of z3 reals on the unit
circle; sin/cos/asin/acos/atan2/radians/degrees, halving, doubling, sums and differences stay algebraic (addition and
half-angle formulas are exact polynomial constraints).  Lengths on the sphere are `Arc` = number * angle.

Nothing here is approximate: every derived quantity is defined by exact constraints, so a proved claim is an identity of
spherical trigonometry over the reals; what cannot be expressed (an angle as a *number*, e.g. a ratio of two angles) is kept
as an opaque object that only supports the comparisons the code makes (through cosines / signs).
"""
import math

import z3

from . import engine as E

EARTH = 6371000


def eng():
    return E.get_engine()


_N = [0]


def fresh(name):
    _N[0] += 1
    return z3.Real(f"{name}!{_N[0]}")


class Ang:
    """angle theta with s = sin(theta), c = cos(theta) (z3 terms).  `rng` documents the interval the angle is known to be in:
    'any' (-pi, pi], 'half' [-pi/2, pi/2], 'pos' [0, pi], 'quarter' [0, pi/2]."""
    __slots__ = ('s', 'c', 'rng', 's2', 'c2')

    def __init__(self, s, c, rng='any', s2=None, c2=None):
        self.s, self.c, self.rng = s, c, rng
        self.s2, self.c2 = s2, c2      # squares of sin / cos when they are known without square roots

    @staticmethod
    def symbolic(name, rng='any'):
        s, c = z3.Real(name + "_sin"), z3.Real(name + "_cos")
        e = eng()
        e.assume(s * s + c * c == 1)
        if rng in ('half', 'quarter'):
            e.assume(c >= 0)
        if rng in ('pos', 'quarter'):
            e.assume(s >= 0)
        return Ang(s, c, rng)

    @staticmethod
    def rational(t, rng='any'):
        """exact angle with tan(theta/2) = t (a fraction): sin = 2t/(1+t^2), cos = (1-t^2)/(1+t^2)."""
        import fractions
        t = fractions.Fraction(t)
        s, c = 2 * t / (1 + t * t), (1 - t * t) / (1 + t * t)
        return Ang(z3.Q(s.numerator, s.denominator), z3.Q(c.numerator, c.denominator), rng)

    @staticmethod
    def const(theta):
        return Ang(E.rv(math.sin(theta)), E.rv(math.cos(theta)), 'any')

    # arithmetic ---------------------------------------------------------------------------
    def __neg__(self):
        return Ang(-self.s, self.c, 'half' if self.rng == 'half' else 'any')

    def __add__(self, o):
        if isinstance(o, Arc):
            o = o.as_angle()
        if not isinstance(o, Ang):
            if o == 0:
                return self
            return self + Ang.const(float(o))
        return Ang(self.s * o.c + self.c * o.s, self.c * o.c - self.s * o.s, 'any')
    __radd__ = __add__

    def __sub__(self, o):
        if isinstance(o, Arc):
            o = o.as_angle()
        if not isinstance(o, Ang):
            return self + Ang.const(-float(o))
        return Ang(self.s * o.c - self.c * o.s, self.c * o.c + self.s * o.s, 'any')

    def __rsub__(self, o):
        return (-self) + o

    def half(self):
        """theta/2 for theta in (-pi, pi]: cos(theta/2) >= 0."""
        e = eng()
        sh, ch = fresh("sh"), fresh("ch")
        e.assume(z3.And(sh * sh + ch * ch == 1, 2 * sh * ch == self.s, ch * ch - sh * sh == self.c, ch >= 0))
        return Ang(sh, ch, 'half')

    def double(self):
        if self.s2 is not None and self.c2 is not None:
            return Ang(2 * self.s * self.c, self.c2 - self.s2, 'any')
        return Ang(2 * self.s * self.c, self.c * self.c - self.s * self.s, 'any')

    def __truediv__(self, o):
        if o == 2:
            return self.half()
        raise E.Unsupported(f"angle / {o}")

    def __mul__(self, o):
        if isinstance(o, (int, float)):
            return Arc(self, o)
        if isinstance(o, E.Sym):
            raise E.Unsupported("angle * symbolic number")
        raise E.Unsupported(f"angle * {o!r}")
    __rmul__ = __mul__

    def __abs__(self):
        return Ang(z3.If(self.s >= 0, self.s, -self.s), self.c, 'pos')

    def _lt_const(self, eps):
        """theta < eps for theta in (-pi, pi], 0 < eps < pi/2."""
        import fractions
        e = fractions.Fraction(repr(float(eps)))
        ce = 1 - e * e / 2 + e ** 4 / 24          # cos(eps) up to eps^6/720 (doubles cannot represent cos of a tiny angle)
        return E.SymBool(z3.Or(self.s < 0, z3.And(self.s >= 0, self.c > z3.Q(ce.numerator, ce.denominator))))

    def __lt__(self, o):
        if isinstance(o, (int, float)) and 0 < o < 1.5:
            return self._lt_const(float(o))
        if isinstance(o, (int, float)) and o == 0:
            return E.SymBool(self.s < 0)
        raise E.Unsupported(f"angle < {o!r}")

    def __gt__(self, o):
        if isinstance(o, (int, float)) and o == 0:
            return E.SymBool(z3.Or(self.s > 0, z3.And(self.s == 0, self.c < 0)))
        raise E.Unsupported(f"angle > {o!r}")

    # comparisons (only those that are meaningful on the circle) ----------------------------------
    def is_zero(self):
        return E.SymBool(z3.And(self.s == 0, self.c == 1))

    def __eq__(self, o):
        if isinstance(o, (int, float)) and o == 0:
            return self.is_zero()
        if isinstance(o, Ang):
            return E.SymBool(z3.And(self.s == o.s, self.c == o.c))
        return NotImplemented

    def __hash__(self):
        return id(self)

    def __format__(self, spec):
        return "<angle>"

    def __repr__(self):
        return f"Ang({self.s},{self.c})"


class Arc:
    """k * theta: a length on the sphere (k a concrete number)."""
    __slots__ = ('a', 'k')

    def __init__(self, a, k):
        if k < 0:
            a, k = -a, -k
        self.a, self.k = a, k

    def __mul__(self, o):
        if isinstance(o, (int, float)):
            return Arc(self.a, self.k * o)
        raise E.Unsupported("arc * non-number")
    __rmul__ = __mul__

    def __truediv__(self, o):
        if isinstance(o, (int, float)):
            return Arc(self.a, self.k / o)
        if isinstance(o, Arc):
            return Ratio(self, o)
        raise E.Unsupported("arc / ?")

    def __neg__(self):
        return Arc(-self.a, self.k)

    def __rtruediv__(self, o):
        if isinstance(o, (int, float)) and o == 0:
            return Ratio(Arc(Ang(z3.RealVal(0), z3.RealVal(1), 'pos'), self.k), self)
        raise E.Unsupported(f"{o!r} / arc")

    def __sub__(self, o):
        return self.as_angle() - (o.as_angle() if isinstance(o, Arc) else o)

    def __add__(self, o):
        return self.as_angle() + (o.as_angle() if isinstance(o, Arc) else o)

    def as_angle(self):
        k = self.k
        if abs(k - 1) < 1e-12:
            return self.a
        if abs(k - 2) < 1e-12:
            return self.a.double()
        if abs(k - 0.5) < 1e-12:
            return self.a.half()
        raise E.Unsupported(f"arc with factor {k} used as an angle")

    def __eq__(self, o):
        if isinstance(o, (int, float)) and o == 0:
            return self.a.is_zero()
        return NotImplemented

    def __hash__(self):
        return id(self)

    def cmp_arc(self, o, op):
        """compare two arcs of the same factor whose angles are both in [0, pi] (after doubling: [0, pi] assumed by the caller)."""
        if isinstance(o, (int, float)):
            # arc (an angle in [0, pi] times k) against a number: compare cosines (cos is decreasing on [0, pi])
            th = float(o) / self.k
            if not 0 <= th <= math.pi:
                raise E.Unsupported(f"arc compared with {o}")
            a, cb = self.a, E.rv(math.cos(th))
            return E.SymBool({'gt': a.c < cb, 'lt': a.c > cb, 'ge': a.c <= cb, 'le': a.c >= cb}[op])
        if not isinstance(o, Arc) or abs(self.k - o.k) > 1e-9 * abs(self.k):
            raise E.Unsupported("comparison of arcs with different factors")
        a, b = self.a, o.a
        # on [0, pi] cos is strictly decreasing
        return E.SymBool({'gt': a.c < b.c, 'lt': a.c > b.c, 'ge': a.c <= b.c, 'le': a.c >= b.c}[op])

    def __gt__(self, o): return self.cmp_arc(o, 'gt')
    def __lt__(self, o): return self.cmp_arc(o, 'lt')
    def __ge__(self, o): return self.cmp_arc(o, 'ge')
    def __le__(self, o): return self.cmp_arc(o, 'le')

    def __format__(self, spec):
        return "<arc>"


class Ratio:
    """num/den of two arcs (the relative position ti): only comparisons with 0 and 1 are supported.  num is a signed angle in
    (-pi, pi], den an angle in [0, pi] (a great-circle distance)."""
    __slots__ = ('num', 'den')

    def __init__(self, num, den):
        self.num, self.den = num, den

    def _angles(self):
        if abs(self.num.k - self.den.k) > 1e-9 * abs(self.den.k):
            # dat = R*theta, dist_hs = 2R*phi  -> compare theta with 2 phi
            if abs(self.den.k - 2 * self.num.k) < 1e-9 * abs(self.den.k):
                return self.num.a, self.den.a.double()
            raise E.Unsupported("ratio of arcs with unrelated factors")
        return self.num.a, self.den.a

    def __gt__(self, o):
        n, d = self._angles()
        if o == 1 or o == 1.0:
            # n > d with n in (-pi, pi], d in [0, pi]: n positive and cos n < cos d
            return E.SymBool(z3.And(n.s > 0, n.c < d.c))
        if o == 0:
            return E.SymBool(n.s > 0)
        raise E.Unsupported("ratio compared with a number other than 0/1")

    def __lt__(self, o):
        n, d = self._angles()
        if o == 0 or o == 0.0:
            return E.SymBool(z3.Or(n.s < 0, z3.And(n.s == 0, n.c < 0)))
        if o == 1:
            return E.SymBool(z3.Or(n.s <= 0, n.c > d.c))
        raise E.Unsupported("ratio compared with a number other than 0/1")

    def __format__(self, spec):
        return "<ratio>"


# ------------------------------------------------------------------------------------------------ shims for dist_latlon
def _sin(x):
    if isinstance(x, Arc):
        x = x.as_angle()
    if isinstance(x, Ang):
        return E.Sym(x.s)
    if isinstance(x, E.Sym):
        raise E.Unsupported("sin of a symbolic number")
    return math.sin(x)


def _cos(x):
    if isinstance(x, Arc):
        x = x.as_angle()
    if isinstance(x, Ang):
        return E.Sym(x.c)
    if isinstance(x, E.Sym):
        raise E.Unsupported("cos of a symbolic number")
    return math.cos(x)


def _asin(v):
    if not isinstance(v, E.Sym):
        return math.asin(v)
    e = eng()
    c = fresh("cas")
    e.assume(z3.And(c >= 0, c * c == 1 - v.t * v.t))
    return Ang(v.t, c, 'half')


def _acos(v):
    if not isinstance(v, E.Sym):
        return math.acos(v)
    e = eng()
    if e.decide(z3.Or(v.t > 1, v.t < -1)):
        raise ValueError("math domain error")
    s = fresh("sac")
    e.assume(z3.And(s >= 0, s * s == 1 - v.t * v.t))
    return Ang(s, v.t, 'pos')


def _atan2(y, x):
    if not isinstance(y, E.Sym) and not isinstance(x, E.Sym):
        return math.atan2(y, x)
    e = eng()
    yt, xt = E.lift(y), E.lift(x)
    if isinstance(y, E.Sym) and isinstance(x, E.Sym) and y.sq is not None and x.sq is not None:
        # atan2(sqrt(a), sqrt(b)) with a + b == 1 (the haversine form): sin = sqrt(a), cos = sqrt(b), no new variables
        if z3.is_true(z3.simplify(y.sq + x.sq == 1)):
            return Ang(yt, xt, 'quarter', s2=y.sq, c2=x.sq)
    if e.decide(z3.And(yt == 0, xt == 0)):
        return Ang(z3.RealVal(0), z3.RealVal(1), 'pos')
    r, s, c = fresh("r"), fresh("sat"), fresh("cat")
    e.assume(z3.And(r > 0, r * r == xt * xt + yt * yt, s * r == yt, c * r == xt))
    return Ang(s, c, 'any')


def _sqrt(v):
    if isinstance(v, E.Sym):
        return eng().sqrt(v)
    return math.sqrt(v)


def _fabs(v):
    if isinstance(v, (Ang,)):
        return abs(v)
    if isinstance(v, E.Sym):
        return abs(v)
    return math.fabs(v)


def _copysign(a, b):
    if isinstance(b, E.Sym):
        return a if eng().decide(b.t >= 0) else -a
    return math.copysign(a, b)


def _radians(x):
    if isinstance(x, (Ang, Arc)):
        return x
    return math.radians(x)


def _degrees(x):
    if isinstance(x, (Ang, Arc)):
        return x
    return math.degrees(x)


class Installed:
    def __init__(self):
        self.saved = None

    def install(self):
        from leuvenmapmatching.util import dist_latlon as dl
        names = dict(sin=_sin, cos=_cos, asin=_asin, acos=_acos, atan2=_atan2, sqrt=_sqrt, fabs=_fabs, copysign=_copysign,
                     radians=_radians, degrees=_degrees)
        self.saved = {n: getattr(dl, n) for n in names}
        for n, f in names.items():
            setattr(dl, n, f)

    def uninstall(self):
        from leuvenmapmatching.util import dist_latlon as dl
        if self.saved:
            for n, f in self.saved.items():
                setattr(dl, n, f)
            self.saved = None


def unit_vector(lat, lon):
    """3-D unit vector (z3 terms) of a point given by Ang latitude / longitude."""
    return (lat.c * lon.c, lat.c * lon.s, lat.s)


def dot(u, v):
    return u[0] * v[0] + u[1] * v[1] + u[2] * v[2]


def cross(u, v):
    return (u[1] * v[2] - u[2] * v[1], u[2] * v[0] - u[0] * v[2], u[0] * v[1] - u[1] * v[0])

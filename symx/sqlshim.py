"""sqlshim: a stand-in for the `sqlite3` module used by leuvenmapmatching.map.sqlite, able to hold symbolic cells.

The SQL text is taken from the real code at run time and *parsed* (small grammar, see parse_*): an edited query is
interpreted as edited; an unparsable statement raises SqlShimError (a harness error, never a verdict).
Tables are lists of dict rows whose cells may be `Sym`.  R-tree virtual tables store outward-rounded 32-bit floats:
concrete numbers are rounded exactly (numpy float32 + nextafter), symbolic ones become a fresh value constrained to
[x - 2^-22|x|, x] (lower bounds) / [x, x + 2^-22|x|] (upper bounds) - an over-approximation of float32 outward rounding.
`commit()` copies the working tables to the durable copy of the file; a new `connect()` sees only the durable copy.
Validated against the real sqlite3 on concrete scripts at every run (selftest in harness/sqlcommon.py).
"""
import copy
import os
import re

import numpy as np
import z3

from . import engine as E


class SqlShimError(Exception):
    pass


class IntegrityError(Exception):
    pass


class OperationalError(Exception):
    pass


FILES = {}        # path -> durable {table name -> Table}
sqlite_version = "shim"


def reset():
    FILES.clear()


class Table:
    def __init__(self, name, cols, kind='table', pk=None):
        self.name, self.cols, self.kind, self.pk = name, cols, kind, pk
        self.rows = []


RNDTOWARDS = 1.0 - 1.0 / 8388608.0     # as in sqlite's rtree.c (rtreeValueDown / rtreeValueUp)
RNDAWAY = 1.0 + 1.0 / 8388608.0


def f32_down(x):
    f = float(np.float32(x))
    if f > x:
        f = float(np.float32(x * (RNDAWAY if x < 0 else RNDTOWARDS)))
    return f


def f32_up(x):
    f = float(np.float32(x))
    if f < x:
        f = float(np.float32(x * (RNDTOWARDS if x < 0 else RNDAWAY)))
    return f


_NF = [0]


def round32(x, up):
    if x is None:
        return None
    if isinstance(x, E.Sym):
        eng = E.get_engine()
        _NF[0] += 1
        r = z3.Real(f"f32!{_NF[0]}")
        ax = z3.If(x.t >= 0, x.t, -x.t)
        ulp = ax * z3.Q(1, 2 ** 22)    # sqlite multiplies by (1 +- 2^-23) and rounds to nearest float32 again: < 2^-22 |x|
        if up:
            eng.assume(z3.And(r >= x.t, r <= x.t + ulp))
        else:
            eng.assume(z3.And(r <= x.t, r >= x.t - ulp))
        return E.Sym(r)
    return f32_up(float(x)) if up else f32_down(float(x))


# ------------------------------------------------------------------------------------------------ tokenizer / parser
TOK = re.compile(r"\s*(--[^\n]*\n|[A-Za-z_][A-Za-z_0-9]*(?:\.[A-Za-z_][A-Za-z_0-9]*)?|\d+(?:\.\d+)?|==|>=|<=|<>|!=|[(),;*?=<>+\-])", re.S)


def tokenize(sql):
    sql = sql + "\n"
    out, pos = [], 0
    while pos < len(sql):
        m = TOK.match(sql, pos)
        if not m:
            if sql[pos:].strip() == '':
                break
            raise SqlShimError(f"cannot tokenize SQL at: {sql[pos:pos + 40]!r}")
        pos = m.end()
        t = m.group(1)
        if t.startswith('--'):
            continue
        out.append(t)
    return [t for t in out if t != ';']


class Parser:
    def __init__(self, sql):
        self.sql = sql
        self.t = tokenize(sql)
        self.i = 0

    def peek(self, k=0):
        return self.t[self.i + k].upper() if self.i + k < len(self.t) else None

    def raw(self):
        return self.t[self.i]

    def eat(self, *words):
        for w in words:
            if self.peek() != w.upper():
                raise SqlShimError(f"expected {w} at token {self.i} of {self.sql!r}, got {self.peek()}")
            self.i += 1

    def accept(self, *words):
        if all(self.peek(k) == w.upper() for k, w in enumerate(words)):
            self.i += len(words)
            return True
        return False

    def ident(self):
        tok = self.t[self.i]
        if not re.match(r"[A-Za-z_]", tok):
            raise SqlShimError(f"identifier expected in {self.sql!r}, got {tok}")
        self.i += 1
        return tok

    def done(self):
        if self.i != len(self.t):
            raise SqlShimError(f"trailing tokens {self.t[self.i:]} in {self.sql!r}")

    # expressions --------------------------------------------------------------------------
    def operand(self):
        tok = self.t[self.i]
        if tok == '?':
            self.i += 1
            return ('param',)
        if re.match(r"\d", tok):
            self.i += 1
            return ('const', float(tok) if '.' in tok else int(tok))
        name = self.ident()
        if self.peek() == '(':
            self.i += 1
            args = []
            if self.peek() == '*':
                self.i += 1
                args = ['*']
            elif self.peek() != ')':
                args.append(self.operand())
                while self.accept(','):
                    args.append(self.operand())
            self.eat(')')
            return ('call', name.lower(), args)
        return ('col', name)

    def expr(self):
        """arithmetic over operands: sums and products with parentheses (ORDER BY expressions)"""
        e = self.term()
        while self.peek() in ('+', '-'):
            op = self.t[self.i]
            self.i += 1
            e = ('arith', op, e, self.term())
        return e

    def term(self):
        e = self.factor()
        while self.peek() == '*':
            self.i += 1
            e = ('arith', '*', e, self.factor())
        return e

    def factor(self):
        if self.peek() == '(':
            self.i += 1
            e = self.expr()
            self.eat(')')
            return e
        return self.operand()

    def select_item(self):
        e = self.operand()
        if self.accept('AS'):
            self.ident()
        return e

    def condition(self):
        conds = [self.comparison()]
        while self.accept('AND'):
            conds.append(self.comparison())
        return conds

    def comparison(self):
        a = self.operand()
        neg = self.accept('NOT', 'IN')
        if neg or self.accept('IN'):
            self.eat('(')
            sub = self.select()
            self.eat(')')
            return ('notin' if neg else 'in', a, sub)
        op = self.t[self.i]
        if op not in ('=', '==', '>=', '<=', '>', '<', '<>', '!='):
            raise SqlShimError(f"comparison operator expected in {self.sql!r}, got {op}")
        self.i += 1
        b = self.operand()
        return (op, a, b)

    def select(self):
        self.eat('SELECT')
        items = [self.select_item()]
        while self.accept(','):
            items.append(self.select_item())
        sources = []
        if self.accept('FROM'):
            sources.append(('from',) + self.source())
            while True:
                if self.accept(','):
                    sources.append(('cross',) + self.source())
                elif self.accept('INNER', 'JOIN') or self.accept('JOIN'):
                    s = self.source()
                    self.eat('ON')
                    sources.append(('inner',) + s + (self.condition(),))
                elif self.accept('LEFT', 'JOIN'):
                    s = self.source()
                    self.eat('ON')
                    sources.append(('left',) + s + (self.condition(),))
                else:
                    break
        where = self.condition() if self.accept('WHERE') else []
        order, limit = [], None
        if self.accept('ORDER', 'BY'):
            while True:
                e = self.expr()
                desc = False
                if self.accept('DESC'):
                    desc = True
                else:
                    self.accept('ASC')
                order.append((e, desc))
                if not self.accept(','):
                    break
        if self.accept('LIMIT'):
            limit = self.operand()
        return ('select', items, sources, where, order, limit)

    def source(self):
        name = self.ident()
        alias = name
        if self.peek() not in (None, ',', 'INNER', 'LEFT', 'JOIN', 'WHERE', 'ON', ')', 'ORDER', 'LIMIT'):
            alias = self.ident()
        return (name, alias)


def parse(sql):
    p = Parser(sql)
    head = p.peek()
    if head == 'SELECT':
        st = p.select()
        p.done()
        return st
    if head == 'DROP':
        p.i += 1
        kind = p.ident().upper()
        p.accept('IF', 'EXISTS')
        name = p.ident()
        p.done()
        return ('drop', kind, name)
    if head == 'CREATE':
        p.i += 1
        if p.accept('VIRTUAL', 'TABLE'):
            ine = p.accept('IF', 'NOT', 'EXISTS')
            name = p.ident()
            p.eat('USING')
            if p.ident().lower() != 'rtree':
                raise SqlShimError("only rtree virtual tables are modelled")
            p.eat('(')
            cols = [p.ident()]
            while p.accept(','):
                cols.append(p.ident())
            p.eat(')')
            p.done()
            return ('create', name, cols, 'rtree', cols[0], bool(ine))
        if p.accept('TABLE'):
            ine = p.accept('IF', 'NOT', 'EXISTS')
            name = p.ident()
            p.eat('(')
            cols, pk = [], None
            while True:
                c = p.ident()
                cols.append(c)
                while p.peek() not in (',', ')'):
                    w = p.ident().upper()
                    if w == 'PRIMARY':
                        pk = c
                if p.accept(','):
                    continue
                break
            p.eat(')')
            p.done()
            return ('create', name, cols, 'table', pk, bool(ine))
        if p.accept('INDEX'):
            return ('noop',)
        raise SqlShimError(f"unsupported CREATE: {sql!r}")
    if head == 'DELETE':
        p.eat('DELETE', 'FROM')
        name = p.ident()
        p.done()
        return ('delete', name)
    if head == 'INSERT':
        p.i += 1
        ignore = p.accept('OR', 'IGNORE')
        p.eat('INTO')
        name = p.ident()
        cols = None
        if p.peek() == '(':
            p.i += 1
            cols = [p.ident()]
            while p.accept(','):
                cols.append(p.ident())
            p.eat(')')
        if p.accept('VALUES'):
            p.eat('(')
            vals = [p.operand()]
            while p.accept(','):
                vals.append(p.operand())
            p.eat(')')
            p.done()
            return ('insert', name, cols, vals, ignore)
        sel = p.select()
        p.done()
        return ('insert_select', name, cols, sel, ignore)
    raise SqlShimError(f"unsupported SQL statement: {sql!r}")


# ------------------------------------------------------------------------------------------------ evaluation
def truthy(x):
    return bool(x)


def compare(op, a, b):
    if a is None or b is None:
        return False
    if op in ('=', '=='):
        return a == b
    if op in ('<>', '!='):
        return a != b
    return {'>=': a >= b, '<=': a <= b, '>': a > b, '<': a < b}[op]


class Cursor:
    def __init__(self, con):
        self.con = con
        self.result = []
        self.pos = 0

    # -- helpers
    def table(self, name):
        for k, t in self.con.tables.items():
            if k.lower() == name.lower():
                return t
        raise OperationalError(f"no such table: {name}")

    def col_of(self, t, name):
        for c in t.cols:
            if c.lower() == name.lower():
                return c
        raise OperationalError(f"table {t.name} has no column named {name}")

    def resolve(self, env, name):
        if '.' in name:
            alias, col = name.split('.', 1)
            for a, (t, row) in env.items():
                if a.lower() == alias.lower():
                    return None if row is None else row[self.col_of(t, col)]
            raise OperationalError(f"no such column: {name}")
        hits = []
        for a, (t, row) in env.items():
            for c in t.cols:
                if c.lower() == name.lower():
                    hits.append(None if row is None else row[c])
        if len(hits) != 1:
            raise OperationalError(f"{'ambiguous' if hits else 'no such'} column: {name}")
        return hits[0]

    def value(self, e, env, params):
        k = e[0]
        if k == 'param':
            return params.pop(0)
        if k == 'const':
            return e[1]
        if k == 'col':
            return self.resolve(env, e[1])
        if k == 'arith':
            a, b = self.value(e[2], env, params), self.value(e[3], env, params)
            if a is None or b is None:
                return None
            return a + b if e[1] == '+' else (a - b if e[1] == '-' else a * b)
        if k == 'call':
            f, args = e[1], e[2]
            if f in ('min', 'max') and len(args) == 2:
                a, b = self.value(args[0], env, params), self.value(args[1], env, params)
                if a is None or b is None:
                    return None
                return E.smin(a, b) if f == 'min' else E.smax(a, b)
            if f == 'sqlite_version':
                return sqlite_version
        raise SqlShimError(f"unsupported expression {e}")

    def holds(self, conds, env, params=None):
        for op, a, b in conds:
            if op in ('in', 'notin'):
                va = self.value(a, env, [])
                if len(b[1]) != 1:
                    raise SqlShimError("sub-select of IN must return one column")
                member = va is not None and any(r[0] is not None and truthy(compare('=', va, r[0])) for r in self.run_select(b, []))
                if member != (op == 'in'):
                    return False
                continue
            va, vb = self.value(a, env, []), self.value(b, env, [])
            if not truthy(compare(op, va, vb)):
                return False
        return True

    @staticmethod
    def bind(conds, params):
        """replace the ? placeholders of a condition list by the given parameters, in textual order."""
        out = []
        for op, a, b in conds:
            a2 = ('const', params.pop(0)) if a[0] == 'param' else a
            if op in ('in', 'notin'):
                out.append((op, a2, b))         # parameters inside the sub-select are not modelled (run_select reports unused ones)
                continue
            b2 = ('const', params.pop(0)) if b[0] == 'param' else b
            out.append((op, a2, b2))
        return out

    def bind_expr(self, e, params):
        if e[0] == 'param':
            return ('const', params.pop(0))
        if e[0] == 'arith':
            a = self.bind_expr(e[2], params)
            return ('arith', e[1], a, self.bind_expr(e[3], params))
        return e

    def run_select(self, st, params):
        _, items, sources, where = st[:4]
        order, limit = (st[4], st[5]) if len(st) > 4 else ([], None)
        params = list(params)
        envs = [dict()]
        for src in sources:
            kind, name, alias = src[0], src[1], src[2]
            t = self.table(name)
            new = []
            for env in envs:
                matched = False
                for row in t.rows:
                    e2 = dict(env)
                    e2[alias] = (t, row)
                    if kind in ('inner', 'left'):
                        if not self.holds(src[3], e2):
                            continue
                    matched = True
                    new.append(e2)
                if kind == 'left' and not matched:
                    e2 = dict(env)
                    e2[alias] = (t, None)
                    new.append(e2)
            envs = new
        if where:
            where = self.bind(where, params)
            envs = [env for env in envs if self.holds(where, env)]
        if order:
            # parameters are consumed in textual order: once per ORDER BY expression, not once per row
            bound = []
            for e, desc in order:
                bound.append((self.bind_expr(e, params), desc))
            import functools

            def cmp(x, y):
                for e, desc in bound:
                    a, b = self.value(e, x, []), self.value(e, y, [])
                    if a is None or b is None:
                        if a is None and b is None:
                            continue
                        r = -1 if a is None else 1          # NULLs first
                    elif truthy(a < b):
                        r = -1
                    elif truthy(b < a):
                        r = 1
                    else:
                        continue
                    return -r if desc else r
                return 0
            envs = sorted(envs, key=functools.cmp_to_key(cmp))
        if limit is not None:
            n = self.value(limit, {}, params)
            if E.is_sym(n):
                raise SqlShimError("symbolic LIMIT is not modelled")
            if n is not None and n >= 0:
                envs = envs[:int(n)]
        if params:
            raise SqlShimError(f"{len(params)} unused SQL parameters")
        agg = [it for it in items if it[0] == 'call' and (it[1] == 'count' or (it[1] in ('min', 'max') and len(it[2]) == 1))]
        if agg:
            if len(agg) != len(items):
                raise SqlShimError("mixing aggregates and plain columns is not modelled")
            row = []
            for it in items:
                if it[1] == 'count':
                    row.append(len(envs))
                else:
                    vals = [self.value(it[2][0], env, []) for env in envs]
                    vals = [v for v in vals if v is not None]
                    row.append(None if not vals else (E.smin(vals) if it[1] == 'min' else E.smax(vals)) if len(vals) > 1 else (vals[0] if vals else None))
            return [tuple(row)]
        return [tuple(self.value(it, env, []) for it in items) for env in envs]

    def insert_row(self, t, cols, vals, ignore):
        cols = [self.col_of(t, c) for c in cols] if cols else list(t.cols)
        if len(cols) != len(vals):
            raise OperationalError(f"table {t.name} has {len(t.cols)} columns but {len(vals)} values were supplied")
        row = {c: None for c in t.cols}
        for c, v in zip(cols, vals):
            row[c] = v
        if t.kind == 'rtree':
            c = t.cols
            row[c[1]], row[c[2]] = round32(row[c[1]], False), round32(row[c[2]], True)
            row[c[3]], row[c[4]] = round32(row[c[3]], False), round32(row[c[4]], True)
            # sqlite's rtree rejects rectangles with min > max ("rtree constraint failed")
            for lo, hi in ((c[1], c[2]), (c[3], c[4])):
                if row[lo] is not None and row[hi] is not None and truthy(row[lo] > row[hi]):
                    if ignore:
                        return
                    raise IntegrityError(f"rtree constraint failed: {t.name}.({lo}<={hi})")
        if t.pk is not None:
            for r in t.rows:
                if truthy(r[t.pk] == row[t.pk]):
                    if ignore:
                        return
                    raise IntegrityError(f"UNIQUE constraint failed: {t.name}.{t.pk}")
        t.rows.append(row)

    # -- DB-API
    def execute(self, sql, params=()):
        st = parse(sql)
        self.result, self.pos = [], 0
        k = st[0]
        if k == 'noop':
            pass
        elif k == 'drop':
            if st[1] == 'TABLE':
                for name in list(self.con.tables):
                    if name.lower() == st[2].lower():
                        del self.con.tables[name]
        elif k == 'create':
            exists = any(n.lower() == st[1].lower() for n in self.con.tables)
            if exists and not (len(st) > 5 and st[5]):
                raise OperationalError(f"table {st[1]} already exists")
            if not exists:
                self.con.tables[st[1]] = Table(st[1], st[2], st[3], st[4])
        elif k == 'delete':
            self.table(st[1]).rows = []
        elif k == 'insert':
            params = list(params)
            t = self.table(st[1])
            vals = [self.value(v, {}, params) for v in st[3]]
            self.insert_row(t, st[2], vals, st[4])
        elif k == 'insert_select':
            t = self.table(st[1])
            for row in self.run_select(st[3], params):
                self.insert_row(t, st[2], list(row), st[4])
        elif k == 'select':
            self.result = self.run_select(st, params)
        else:
            raise SqlShimError(f"unhandled statement {st}")
        return self

    def executemany(self, sql, seq):
        for params in seq:
            self.execute(sql, params)
        return self

    def fetchone(self):
        if self.pos < len(self.result):
            self.pos += 1
            return self.result[self.pos - 1]
        return None

    def fetchall(self):
        r = self.result[self.pos:]
        self.pos = len(self.result)
        return r

    def __iter__(self):
        return iter(self.fetchall())


class Connection:
    def __init__(self, path):
        self.path = path
        if path not in FILES:
            FILES[path] = {}
            try:
                if not os.path.exists(path):
                    open(path, 'wb').close()     # sqlite3.connect creates the file; SqliteMap tests for its existence
            except OSError as e:
                raise OperationalError(str(e))
        self.tables = copy.deepcopy(FILES[path])

    def cursor(self):
        return Cursor(self)

    def commit(self):
        FILES[self.path] = copy.deepcopy(self.tables)

    def close(self):
        pass


def connect(path):
    return Connection(str(path))

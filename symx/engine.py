"""SYMX: symbolic execution of the real LeuvenMapMatching functions by operator-overloading proxies.

`Sym` wraps a z3 Real term, `SymBool` a z3 Bool term.  Every `__bool__` on a symbolic condition is a
recorded fork; paths are enumerated depth-first by re-execution from scratch; the feasibility of each
branch and the final assertion of each path are decided by z3.  See DESIGN.md section 2.

Number model: symbolic sub-expressions are evaluated over the reals, sub-expressions without symbolic
operands by CPython in IEEE double exactly as in production.
"""
import fractions
import math
import time

import z3

INF = float('inf')


class Unsupported(Exception):
    """The code under test did something the proxy model cannot represent (reported, never sampled)."""


class PathAbort(BaseException):
    """Internal: current path is infeasible / cut (BaseException so `except Exception` in code under test does not eat it)."""


class SplitAbort(BaseException):
    """Internal: path reached the shard-split depth."""


def rv(x):
    """Exact rational for a Python number: shortest-repr decimal of a double."""
    if isinstance(x, bool):
        x = int(x)
    if isinstance(x, int):
        return z3.RealVal(x)
    if isinstance(x, fractions.Fraction):
        return z3.Q(x.numerator, x.denominator)
    x = float(x)
    if x != x or x in (INF, -INF):
        raise Unsupported(f"non-finite constant {x}")
    fr = fractions.Fraction(repr(x))
    return z3.Q(fr.numerator, fr.denominator)


def nonfinite(o):
    if isinstance(o, (Sym, SymBool, int, fractions.Fraction)):
        return False
    try:
        f = float(o)
    except Exception:
        return False
    return f != f or f in (INF, -INF)


def lift(o):
    """z3 Real term of a Sym / SymBool / number."""
    if isinstance(o, Sym):
        return o.t
    if isinstance(o, SymBool):
        return z3.If(o.t, z3.RealVal(1), z3.RealVal(0))
    if z3.is_expr(o):
        return o
    return rv(o)


def is_sym(o):
    return isinstance(o, (Sym, SymBool))


class Sym:
    __slots__ = ('t', 'sq', 'absof', 'nn')
    __array_priority__ = 1000

    def __init__(self, t, sq=None, absof=None, nn=False):
        self.t = t
        self.sq = sq        # if not None: t is an aux var equal to sqrt(sq)
        self.absof = absof  # if not None: t == |absof|
        self.nn = nn or sq is not None or absof is not None   # syntactically non-negative (square, sum of squares, sqrt, abs)

    def square(self):
        if self.sq is not None:
            return Sym(self.sq, nn=True)
        if self.absof is not None:
            return Sym(self.absof * self.absof, nn=True)
        return Sym(self.t * self.t, nn=True)

    def __add__(self, o):
        if nonfinite(o):
            return float(o)
        nn = self.nn and ((isinstance(o, Sym) and o.nn) or (not is_sym(o) and not z3.is_expr(o) and o >= 0))
        return Sym(self.t + lift(o), nn=nn)
    __radd__ = __add__

    def __sub__(self, o):
        if nonfinite(o):
            return -float(o)
        return Sym(self.t - lift(o))

    def __rsub__(self, o):
        if nonfinite(o):
            return float(o)
        return Sym(lift(o) - self.t)

    def __mul__(self, o):
        if nonfinite(o):
            raise Unsupported("sym*inf")
        if isinstance(o, Sym) and o.t.get_id() == self.t.get_id():
            return self.square()
        if not is_sym(o) and not z3.is_expr(o) and o == 0:
            return 0.0 if isinstance(o, float) else 0
        return Sym(self.t * lift(o))
    __rmul__ = __mul__

    def __truediv__(self, o):
        if nonfinite(o):
            return 0.0
        ot = lift(o)
        if isinstance(o, Sym):
            if ENGINE.decide(ot == 0):
                raise ZeroDivisionError("float division by zero")
        elif not is_sym(o) and o == 0:
            raise ZeroDivisionError("float division by zero")
        return Sym(self.t / ot)

    def __rtruediv__(self, o):
        if ENGINE.decide(self.t == 0):
            raise ZeroDivisionError("float division by zero")
        if nonfinite(o):
            raise Unsupported("inf/sym")
        return Sym(lift(o) / self.t)

    def __neg__(self):
        return Sym(-self.t)

    def __pos__(self):
        return self

    def __abs__(self):
        if self.sq is not None:
            return self
        if self.absof is not None:
            return self
        return Sym(z3.If(self.t >= 0, self.t, -self.t), absof=self.t)

    def __pow__(self, o):
        if isinstance(o, int) and o == 2:
            return self.square()
        if isinstance(o, int) and 0 <= o <= 4:
            r = z3.RealVal(1)
            for _ in range(o):
                r = r * self.t
            return Sym(r)
        raise Unsupported(f"pow {o}")

    def _cmp(self, o, op):
        if nonfinite(o):
            o = float(o)
            if o != o:
                return op == 'ne'
            pos = o > 0
            return {'lt': pos, 'le': pos, 'gt': not pos, 'ge': not pos, 'eq': False, 'ne': True}[op]
        a, b = self, o
        # sqrt-aware comparison: compare radicands
        if a.sq is not None:
            if isinstance(b, Sym) and b.sq is not None:
                return SymBool(_OPS[op](a.sq, b.sq))
            if not is_sym(b) and not z3.is_expr(b):
                c = float(b)
                if c < 0:
                    return {'lt': False, 'le': False, 'gt': True, 'ge': True, 'eq': False, 'ne': True}[op]
                return SymBool(_OPS[op](a.sq, rv(b) * rv(b)))
        elif isinstance(b, Sym) and b.sq is not None and False:
            pass
        return SymBool(_OPS[op](a.t, lift(b)))

    def __lt__(self, o): return self._cmp(o, 'lt')
    def __le__(self, o): return self._cmp(o, 'le')
    def __gt__(self, o): return self._cmp(o, 'gt')
    def __ge__(self, o): return self._cmp(o, 'ge')

    def __eq__(self, o):
        if o is None or isinstance(o, (str, tuple, list, dict)):
            return False
        if isinstance(o, Sym) and o.t.get_id() == self.t.get_id():
            return True
        return self._cmp(o, 'eq')

    def __ne__(self, o):
        if o is None or isinstance(o, (str, tuple, list, dict)):
            return True
        if isinstance(o, Sym) and o.t.get_id() == self.t.get_id():
            return False
        return self._cmp(o, 'ne')

    def __hash__(self):
        return self.t.get_id()

    def __bool__(self):
        return ENGINE.decide(self.t != 0)

    def __float__(self):
        raise Unsupported("float(Sym): realisation at a C boundary")

    def __int__(self):
        raise Unsupported("int(Sym): realisation")

    def __format__(self, spec):
        return "<sym>"

    def __repr__(self):
        return f"Sym({self.t})"

    def __reduce__(self):
        return (_unpickle_sym, (_register_sym(self),))


_SYM_REGISTRY = {}


def _register_sym(s):
    k = len(_SYM_REGISTRY)
    _SYM_REGISTRY[k] = s
    return k


def _unpickle_sym(k):
    return _SYM_REGISTRY[k]


def _flip(op):
    return {'lt': 'gt', 'le': 'ge', 'gt': 'lt', 'ge': 'le', 'eq': 'eq', 'ne': 'ne'}[op]


_OPS = {'lt': lambda a, b: a < b, 'le': lambda a, b: a <= b, 'gt': lambda a, b: a > b,
        'ge': lambda a, b: a >= b, 'eq': lambda a, b: a == b, 'ne': lambda a, b: a != b}


class SymBool:
    __slots__ = ('t',)

    def __init__(self, t):
        self.t = t

    def __bool__(self):
        return ENGINE.decide(self.t)

    def __and__(self, o):
        return SymBool(z3.And(self.t, o.t if isinstance(o, SymBool) else z3.BoolVal(bool(o))))
    __rand__ = __and__

    def __or__(self, o):
        return SymBool(z3.Or(self.t, o.t if isinstance(o, SymBool) else z3.BoolVal(bool(o))))
    __ror__ = __or__

    def __invert__(self):
        return SymBool(z3.Not(self.t))

    def __eq__(self, o):
        if isinstance(o, SymBool):
            return SymBool(self.t == o.t)
        if isinstance(o, bool):
            return self if o else SymBool(z3.Not(self.t))
        return False

    def __ne__(self, o):
        r = self.__eq__(o)
        if isinstance(r, SymBool):
            return SymBool(z3.Not(r.t))
        return not r

    def __hash__(self):
        return self.t.get_id()

    def __format__(self, spec):
        return "<symbool>"

    def __repr__(self):
        return f"SymBool({self.t})"


def smin(*a, **kw):
    if len(a) == 1:
        a = tuple(a[0])
    if kw or not any(isinstance(x, Sym) for x in a):
        return min(a, **kw)
    r = a[0]
    for x in a[1:]:
        if nonfinite(x):
            if float(x) < 0:
                return float(x)
            continue
        if nonfinite(r):
            if float(r) > 0:
                r = x
            continue
        rt, xt = lift(r), lift(x)
        r = Sym(z3.If(xt < rt, xt, rt))
    return r


def smax(*a, **kw):
    if len(a) == 1:
        a = tuple(a[0])
    if kw or not any(isinstance(x, Sym) for x in a):
        return max(a, **kw)
    r = a[0]
    for x in a[1:]:
        if nonfinite(x):
            if float(x) > 0:
                return float(x)
            continue
        if nonfinite(r):
            if float(r) < 0:
                r = x
            continue
        rt, xt = lift(r), lift(x)
        r = Sym(z3.If(xt > rt, xt, rt))
    return r


class ShimMath:
    """Stands in for the `math` module inside a module under test."""

    def __init__(self, max_ceil=6):
        self.max_ceil = max_ceil

    def __getattr__(self, k):
        return getattr(math, k)

    @staticmethod
    def sqrt(x):
        if not isinstance(x, Sym):
            return math.sqrt(x)
        return ENGINE.sqrt(x)

    @staticmethod
    def fabs(x):
        if not isinstance(x, Sym):
            return math.fabs(x)
        return abs(x)

    @staticmethod
    def isclose(a, b, *, rel_tol=1e-09, abs_tol=0.0):
        """math.isclose by its documented formula: |a-b| <= max(rel_tol * max(|a|, |b|), abs_tol) (finite arguments)."""
        if not isinstance(a, Sym) and not isinstance(b, Sym):
            return math.isclose(a, b, rel_tol=rel_tol, abs_tol=abs_tol)
        x, y = lift(a), lift(b)
        ax, ay, d = z3.If(x >= 0, x, -x), z3.If(y >= 0, y, -y), z3.If(x >= y, x - y, y - x)
        return SymBool(z3.Or(d <= rv(abs_tol), d <= rv(rel_tol) * z3.If(ax >= ay, ax, ay)))

    @staticmethod
    def hypot(*xs):
        if not any(isinstance(x, Sym) for x in xs):
            return math.hypot(*xs)
        acc = 0
        for x in xs:
            acc = acc + x * x
        return ENGINE.sqrt(acc)

    @staticmethod
    def dist(p, q):
        if not any(isinstance(x, Sym) for x in list(p) + list(q)):
            return math.dist(p, q)
        acc = 0
        for x, y in zip(p, q):
            acc = acc + (x - y) * (x - y)
        return ENGINE.sqrt(acc)

    def ceil(self, x):
        """Fork over the integer value (bounded: an unwinding assertion is raised beyond max_ceil)."""
        if not isinstance(x, Sym):
            return math.ceil(x)
        for n in range(-1, self.max_ceil + 1):
            if ENGINE.decide(z3.And(x.t > n - 1, x.t <= n)):
                return n
        raise Unwind(f"ceil() outside [-1,{self.max_ceil}]")


class Unwind(Exception):
    """A bounded unrolling was exceeded: the path is outside the stated bound (reported as such)."""


class ShimNp:
    def __init__(self):
        import numpy
        self._np = numpy
        self.inf = numpy.inf

    def __getattr__(self, k):
        return getattr(self._np, k)

    def isclose(self, a, b, rtol=1e-5, atol=1e-8):
        if not any(isinstance(x, Sym) for x in (a, b, atol, rtol)):
            return bool(self._np.isclose(a, b, rtol=rtol, atol=atol))
        if not isinstance(rtol, Sym) and rtol == 0:
            dt = lift(a) - lift(b)
            return SymBool(z3.And(dt <= lift(atol), -dt <= lift(atol)))
        d = abs(a - b)
        return d <= atol + rtol * abs(b)

    def allclose(self, a, b, rtol=1e-5, atol=1e-8):
        for x, y in zip(a, b):
            if not self.isclose(x, y, rtol=rtol, atol=atol):
                return False
        return True


def vars_of(t, acc):
    stack = [t]
    seen = set()
    while stack:
        e = stack.pop()
        i = e.get_id()
        if i in seen:
            continue
        seen.add(i)
        if z3.is_const(e) and e.decl().kind() == z3.Z3_OP_UNINTERPRETED:
            acc[i] = e
        stack.extend(e.children())
    return acc


def model_value(m, t):
    """Python float of a z3 term under model m (algebraic numbers approximated to 1e-15)."""
    v = m.eval(lift(t) if not z3.is_expr(t) else t, model_completion=True)
    if z3.is_rational_value(v):
        fr = v.as_fraction()
        return float(fr)
    if z3.is_algebraic_value(v):
        return float(v.approx(20).as_fraction())
    if z3.is_true(v):
        return True
    if z3.is_false(v):
        return False
    if z3.is_int_value(v):
        return v.as_long()
    raise Unsupported(f"cannot read model value {v}")


class Engine:
    """DFS path explorer.

    strategy: 'inc'   one incremental z3.Solver per path (good for linear arithmetic),
              'fresh' a fresh SolverFor('QF_NRA') (nlsat) per query (good for non-linear path conditions).
    lazy:     no feasibility checks at branches (both sides explored; infeasible paths are discarded by the
              final query) - for kernels with few branch points.
    """

    def __init__(self, timeout_ms=10000, lazy=False, cache=True, strategy='inc', max_decisions=4000, first=None):
        import os
        # which side of a two-way branch is explored first: VERIF_SEED odd -> the False side (another corner of the path
        # space is reached first when the enumeration is cut by a time budget; complete enumerations are unaffected)
        if first is None:
            try:
                first = (int(os.environ.get('VERIF_SEED', '0')) % 2) == 0
            except ValueError:
                first = True
        self.first = first
        self.strategy = strategy
        self.timeout_ms = timeout_ms
        self.lazy = lazy
        self.use_cache = cache
        self.max_decisions = max_decisions
        self.stats = dict(paths=0, decisions=0, queries=0, solver_s=0.0, unknown=0, forced=0,
                          cache_hits=0, infeasible=0, split=0)
        self.models = []      # global model cache
        self.split_depth = None
        self.shards = []
        self.reset_path([])

    # ---------------------------------------------------------------- per-path state
    def reset_path(self, prefix):
        self.prefix = prefix
        self.idx = 0
        self.pc = []
        if self.strategy == 'inc':
            self.solver = z3.Solver()
            self.solver.set('timeout', self.timeout_ms)
        else:
            self.solver = None
        self.trace = []
        self.memo = {}
        self.naux = 0
        self.nfresh = {}
        self.sqrt_memo = {}
        self.defs = {}
        self.defs_added = set()
        self.live_models = list(self.models)
        self.path_unknown = False
        self.notes = []

    def fresh(self, name):
        return Sym(z3.Real(name))

    def fresh_bool(self, name):
        return SymBool(z3.Bool(name))

    def _assert(self, c):
        self.pc.append(c)
        if self.solver is not None:
            self.solver.add(c)
        if self.live_models:
            self.live_models = [m for m in self.live_models if self._holds(m, c)]

    def _pull_defs(self, c):
        acc = vars_of(c, {})
        todo = [i for i in acc if i in self.defs and i not in self.defs_added]
        while todo:
            i = todo.pop()
            if i in self.defs_added:
                continue
            self.defs_added.add(i)
            d = self.defs[i]
            self._assert(d)
            for j in vars_of(d, {}):
                if j in self.defs and j not in self.defs_added:
                    todo.append(j)

    def _add(self, c):
        self._pull_defs(c)
        self._assert(c)

    @staticmethod
    def _holds(m, c):
        try:
            return z3.is_true(m.eval(c, model_completion=True))
        except Exception:
            return False

    def assume(self, c):
        c = c.t if isinstance(c, SymBool) else c
        if isinstance(c, bool):
            if not c:
                raise PathAbort("assume(False)")
            return
        self._add(c)

    def define(self, var, definition):
        """Register a structural definition that enters queries only when `var` occurs (cone of influence)."""
        self.defs[var.get_id()] = definition

    def sqrt_of(self, radicand, name=None):
        """Aux variable s with s>=0, s*s==radicand, remembered as sqrt (radicand: z3 term)."""
        key = radicand.get_id()
        if key in self.sqrt_memo:
            return self.sqrt_memo[key]
        self.naux += 1
        s = z3.Real(name or f"sqrt!{self.naux}")
        self.defs[s.get_id()] = z3.And(s >= 0, s * s == radicand)
        r = Sym(s, sq=radicand)
        self.sqrt_memo[key] = r
        return r

    def sqrt(self, x):
        key = x.t.get_id()
        if key in self.sqrt_memo:
            return self.sqrt_memo[key]
        if not x.nn and self.decide(x.t < 0):
            raise ValueError("math domain error")
        return self.sqrt_of(x.t)

    # ---------------------------------------------------------------- solving
    def _new_solver(self, cons):
        if self.strategy == 'inc':
            s = z3.Solver()
        else:
            s = z3.SolverFor('QF_NRA')
        s.set('timeout', self.timeout_ms)
        s.add(*cons)
        return s

    def check(self, *assumptions):
        for a in assumptions:
            self._pull_defs(a)
        t0 = time.time()
        if self.strategy == 'inc':
            r = self.solver.check(*assumptions)
            slv = self.solver
        else:
            slv = self._new_solver(self.pc + list(assumptions))
            r = slv.check()
        self.stats['queries'] += 1
        self.stats['solver_s'] += time.time() - t0
        if r == z3.sat and self.use_cache:
            try:
                m = slv.model()
                self.models.append(m)
                if len(self.models) > 60:
                    self.models.pop(0)
                self.live_models.append(m)
            except z3.Z3Exception:
                pass
        return r

    def decide(self, cond):
        if isinstance(cond, bool):
            return cond
        cond = z3.simplify(cond)
        if z3.is_true(cond):
            return True
        if z3.is_false(cond):
            return False
        key = cond.get_id()
        if key in self.memo:
            return self.memo[key]
        self.stats['decisions'] += 1
        if self.idx >= self.max_decisions:
            raise Unwind(f"more than {self.max_decisions} decisions on one path")
        if self.idx < len(self.prefix):
            take = self.prefix[self.idx]
        elif self.split_depth is not None and self.idx >= self.split_depth:
            raise SplitAbort()
        elif self.lazy:
            self.worklist.append(list(self.trace) + [not self.first])
            take = self.first
        else:
            ft = ff = None
            if self.use_cache:
                for m in self.live_models:
                    try:
                        v = m.eval(cond, model_completion=True)
                    except z3.Z3Exception:
                        continue
                    if z3.is_true(v):
                        ft = True
                    elif z3.is_false(v):
                        ff = True
                    if ft and ff:
                        break
                if ft and ff:
                    self.stats['cache_hits'] += 1
            if ft is None:
                rt = self.check(cond)
                if rt == z3.unknown:
                    self.stats['unknown'] += 1
                    self.path_unknown = True
                ft = rt != z3.unsat
            if ff is None:
                rf = self.check(z3.Not(cond))
                if rf == z3.unknown:
                    self.stats['unknown'] += 1
                    self.path_unknown = True
                ff = rf != z3.unsat
            if ft and ff:
                self.worklist.append(list(self.trace) + [not self.first])
                take = self.first
            elif ft:
                take = True
                self.stats['forced'] += 1
            elif ff:
                take = False
                self.stats['forced'] += 1
            else:
                raise PathAbort("infeasible path")
        self.trace.append(take)
        self.idx += 1
        self._add(cond if take else z3.Not(cond))
        self.memo[key] = take
        return take

    def choose(self, n, tag="choice"):
        """Engine-chosen integer in range(n): a fork per value (for environment nondeterminism, e.g. iteration order)."""
        if n <= 1:
            return 0
        self.nfresh[tag] = self.nfresh.get(tag, 0) + 1
        for k in range(n - 1):
            b = z3.Bool(f"{tag}!{self.nfresh[tag]}!{k}")
            if self.decide(b):
                return k
        return n - 1

    # ---------------------------------------------------------------- exploration
    def explore(self, fn, on_path, max_paths=None, root=None, deadline=None):
        """Run fn() on every feasible path below decision prefix `root`; call on_path(engine, result).

        result = ('ok', value) | ('exc', exception) | ('unsupported', e) | ('unwind', e).
        Returns stats; stats['complete'] is False when max_paths/deadline cut the enumeration.
        """
        self.worklist = [list(root or [])]
        self.stats['complete'] = True
        while self.worklist:
            if (max_paths and self.stats['paths'] >= max_paths) or (deadline and time.time() > deadline):
                self.stats['complete'] = False
                self.stats['left'] = len(self.worklist)
                break
            prefix = self.worklist.pop()
            self.reset_path(prefix)
            try:
                res = ('ok', fn())
            except PathAbort:
                self.stats['infeasible'] += 1
                continue
            except SplitAbort:
                self.stats['split'] += 1
                self.shards.append(list(self.trace))
                continue
            except Unsupported as e:
                res = ('unsupported', e)
            except Unwind as e:
                res = ('unwind', e)
            except Exception as e:  # an exception of the code under test is an outcome
                res = ('exc', e)
            self.stats['paths'] += 1
            on_path(self, res)
        return self.stats

    def split(self, fn, depth):
        """Enumerate decision prefixes of length `depth` (feasible ones) to shard the exploration.
        Paths shorter than depth are returned as complete prefixes too."""
        self.split_depth = depth
        self.shards = []
        short = []

        def on_path(e, r):
            short.append(list(e.trace))
        self.explore(fn, on_path)
        self.split_depth = None
        return self.shards + short

    def full_pc(self, extra=()):
        cons = list(self.pc) + list(extra)
        done = set(self.defs_added)
        changed = True
        while changed:
            changed = False
            acc = {}
            for c in cons:
                vars_of(c, acc)
            for i in acc:
                if i in self.defs and i not in done:
                    done.add(i)
                    cons.append(self.defs[i])
                    changed = True
        return cons

    def prove(self, claim, timeout_ms=None, logic=None):
        """Decide pc => claim.  Returns ('unsat', None) = holds on this path, ('sat', model), ('unknown', None)."""
        if isinstance(claim, bool):
            claim = z3.BoolVal(claim)
        if isinstance(claim, SymBool):
            claim = claim.t
        cons = self.full_pc([z3.Not(claim)])
        if logic is None:
            s = z3.Solver() if self.strategy == 'inc' else z3.SolverFor('QF_NRA')
        else:
            s = z3.SolverFor(logic)
        s.set('timeout', timeout_ms or 2 * self.timeout_ms)
        s.add(*cons)
        t0 = time.time()
        r = s.check()
        self.stats['queries'] += 1
        self.stats['solver_s'] += time.time() - t0
        if r == z3.sat:
            return 'sat', s.model()
        if r == z3.unsat:
            return 'unsat', None
        return 'unknown', None

    def feasible(self, timeout_ms=None):
        """Is the current path condition satisfiable? ('sat', model) / ('unsat', None) / ('unknown', None)."""
        r, m = self.prove(z3.BoolVal(False), timeout_ms=timeout_ms)
        return r, m


ENGINE = None


def set_engine(e):
    global ENGINE
    ENGINE = e
    return e


def get_engine():
    return ENGINE

"""G-abs: abstract geometry.  `AbsMap` implements the documented BaseMap interface over a concrete topology;
points are opaque, every geometric call returns memoised fresh symbols constrained only by the geometric
contract (dist = sqrt(q), q >= 0; t in [0,1]; distance symmetric; identical arguments => identical result).
`TableMap` is its concrete twin (distances from a table, e.g. a solver model) used to replay candidates on
the real matcher with plain floats.  Graph library `L4` as in DESIGN.md section 4.
"""
import itertools

import z3

from . import engine as E


class Coord:
    """Opaque coordinate (formatting-safe, compared by name)."""
    __slots__ = ('name',)

    def __init__(self, name):
        self.name = name

    def __eq__(self, o):
        return isinstance(o, Coord) and o.name == self.name

    def __ne__(self, o):
        return not self.__eq__(o)

    def __hash__(self):
        return hash(self.name)

    def __format__(self, spec):
        return self.name

    def __repr__(self):
        return self.name


class P(tuple):
    """Opaque point."""

    def __new__(cls, name, extra=None):
        items = (Coord(name + ".y"), Coord(name + ".x"))
        if extra is not None:
            items = items + (extra,)
        o = tuple.__new__(cls, items)
        o.name = name
        return o

    def __getitem__(self, i):
        r = tuple.__getitem__(self, i)
        if isinstance(i, slice):
            if len(r) == 2:
                return P(self.name)
        return r

    def __reduce__(self):
        return (P, (self.name,))


def pname(p):
    if isinstance(p, P):
        return p.name
    # a tuple that went through Segment.pi's trimming (tuple(value[:2])) keeps Coord items
    if isinstance(p, tuple) and len(p) >= 2 and isinstance(p[0], Coord):
        return p[0].name[:-2]
    raise E.Unsupported(f"not an opaque point: {p!r}")


class AbsMapBase:
    """Topology + listing helpers shared by AbsMap and TableMap."""

    def _init_topo(self, graph, linked=None, self_listed=True, order=None, canon=None, scale=None):
        self.G = {k: list(v) for k, v in graph.items()}
        self.linked = linked or {}
        self.self_listed = self_listed
        self.order = order          # callable(list, tag) -> list : listing order chosen by the environment
        self.canon = canon or {}    # label -> canonical name used for the geometry symbols (relabelling keeps the geometry)
        self.scale = scale          # all distances multiplied by this positive constant (None = 1)
        self.loc = {n: P(f"n{self.canon.get(n, n)}") for n in self.G}
        self.calls = []

    def _ord(self, lst, tag):
        if self.order is None:
            return lst
        return self.order(lst, tag)

    def edges(self):
        return [(u, v) for u in self.G for v in self.G[u] if u != v]

    def node_coordinates(self, n):
        return self.loc[n]

    def nodes_nbrto(self, n):
        if n not in self.G:
            return []
        lst = self.G[n] + ([n] if self.self_listed else [])
        return self._ord([(m, self.loc[m]) for m in lst], f"nbr:{n}")

    def edges_nbrto(self, e):
        l1, l2 = e
        res = [(l2, self.loc[l2], l3, p3) for l3, p3 in self.nodes_nbrto(l2)]
        for (l3, l4) in self.linked.get(e, []):
            res.append((l3, self.loc[l3], l4, self.loc[l4]))
        return res

    def edges_closeto(self, loc, max_dist=None, max_elmt=None):
        res = []
        for (u, v) in self._ord(self.edges(), "edges"):
            d, pi, ti = self.distance_point_to_segment(loc, self.loc[u], self.loc[v])
            if d < max_dist:
                res.append((d, u, self.loc[u], v, self.loc[v], pi, ti))
        return res

    def nodes_closeto(self, loc, max_dist=None, max_elmt=None):
        res = []
        for n in self._ord(list(self.G), "nodes"):
            d = self.distance(loc, self.loc[n])
            if d < max_dist:
                res.append((d, n, self.loc[n]))
        return res

    def bb(self):
        return None

    def labels(self):
        return list(self.G)

    def size(self):
        return len(self.G)

    def all_nodes(self, bb=None):
        return [(n, self.loc[n]) for n in self.G]

    def all_edges(self, bb=None):
        return [(u, self.loc[u], v, self.loc[v]) for u, v in self.edges()]


def key_pp(a, b):
    a, b = sorted([a, b])
    return f"pp[{a}|{b}]"


def key_ps(p, s1, s2):
    """key of point p against the segment {s1, s2}.  The two orientations of a segment share the distance and the projection
    point (in dist_euclidean: same point, t' = 1 - t, for segments longer than the 1e-8 tolerance), so the key is canonical in
    the end points; use flipped()/t_of() for the relative position."""
    a, b = sorted([s1, s2])
    return f"ps[{p}|{a}>{b}]"


def key_ss(f1, f2, t1, t2):
    """key of segment {f1, f2} against segment t1>t2 (the second one is an observation segment and keeps its orientation)."""
    a, b = sorted([f1, f2])
    return f"ss[{a}>{b}|{t1}>{t2}]"


def flipped(s1, s2):
    return s1 > s2


def t_of(mp, key, s1, s2):
    """relative position symbol (Sym) for the orientation s1>s2 of the canonical key."""
    t = mp.t(key)
    if flipped(s1, s2):
        return 1 - t
    return t


def make_absmap_class():
    from leuvenmapmatching.map.base import BaseMap

    class AbsMap(AbsMapBase, BaseMap):
        def __init__(self, graph, linked=None, self_listed=True, order=None, memo=None, canon=None, scale=None):
            BaseMap.__init__(self, "abs", use_latlon=False)
            self._init_topo(graph, linked, self_listed, order, canon, scale)
            self.memo = {} if memo is None else memo
            self.distance = self._distance
            self.distance_point_to_segment = self._dps
            self.distance_segment_to_segment = self._dss

        # symbols ------------------------------------------------------------------
        def q(self, key):
            """Squared distance symbol for key (z3 term)."""
            return self.sq(key).sq

        def sq(self, key):
            k = 'd:' + key
            if k not in self.memo:
                eng = E.get_engine()
                q = z3.Real("q_" + key)
                eng.assume(q >= 0)
                if self.scale is None:
                    self.memo[k] = eng.sqrt_of(q, name="d_" + key)
                else:
                    c = E.rv(self.scale)
                    self.memo[k] = eng.sqrt_of(c * c * q, name=f"d{self.scale}_" + key)
            return self.memo[k]

        def t(self, key):
            k = 't:' + key
            if k not in self.memo:
                eng = E.get_engine()
                t = z3.Real("t_" + key)
                eng.assume(z3.And(t >= 0, t <= 1))
                self.memo[k] = E.Sym(t)
            return self.memo[k]

        # geometry -----------------------------------------------------------------
        def _distance(self, p1, p2):
            a, b = pname(p1), pname(p2)
            if a == b:
                return 0.0
            return self.sq(key_pp(a, b))

        def _dps(self, p, s1, s2, delta=0.0):
            k = key_ps(pname(p), pname(s1), pname(s2))
            return self.sq(k), P("proj:" + k), t_of(self, k, pname(s1), pname(s2))

        def _dss(self, f1, f2, t1, t2):
            k = key_ss(pname(f1), pname(f2), pname(t1), pname(t2))
            return self.sq(k), P("pf:" + k), P("pt:" + k), t_of(self, "f:" + k, pname(f1), pname(f2)), self.t("t:" + k)

    return AbsMap


def make_tablemap_class():
    from leuvenmapmatching.map.base import BaseMap

    class TableMap(AbsMapBase, BaseMap):
        """Concrete map over opaque points: distances and relative positions looked up in a table
        (key -> float); missing keys get `default`."""

        def __init__(self, graph, table, linked=None, self_listed=True, order=None, default=1.0, canon=None, scale=None):
            BaseMap.__init__(self, "table", use_latlon=False)
            self._init_topo(graph, linked, self_listed, order, canon, scale)
            self.table = table
            self.default = default
            self.distance = self._distance
            self.distance_point_to_segment = self._dps
            self.distance_segment_to_segment = self._dss

        def _d(self, key):
            return float(self.table.get('d:' + key, self.default)) * (1.0 if self.scale is None else self.scale)

        def _t(self, key):
            return float(self.table.get('t:' + key, 0.5))

        # symbol provider (names only): lets the claim builders of latticelib/matchlib run on a concrete replay;
        # the resulting formulas are then evaluated under the table (eval_under).
        def q(self, key):
            return z3.Real("q_" + key)

        def t(self, key):
            return E.Sym(z3.Real("t_" + key))

        def sq(self, key):
            return E.Sym(z3.Real("d_" + key), sq=z3.Real("q_" + key))

        def _distance(self, p1, p2):
            a, b = pname(p1), pname(p2)
            if a == b:
                return 0.0
            return self._d(key_pp(a, b))

        def _dps(self, p, s1, s2, delta=0.0):
            k = key_ps(pname(p), pname(s1), pname(s2))
            return self._d(k), P("proj:" + k), (1.0 - self._t(k)) if flipped(pname(s1), pname(s2)) else self._t(k)

        def _dss(self, f1, f2, t1, t2):
            k = key_ss(pname(f1), pname(f2), pname(t1), pname(t2))
            tf = self._t("f:" + k)
            return self._d(k), P("pf:" + k), P("pt:" + k), (1.0 - tf) if flipped(pname(f1), pname(f2)) else tf, self._t("t:" + k)

    return TableMap


class ModelTable:
    """dict-like table backed by a solver model: 'd:<key>' -> sqrt(model[q_<key>]), 't:<key>' -> model[t_<key>];
    symbols the model does not mention evaluate to 0 (model completion).  Records what was accessed."""

    def __init__(self, model):
        self.model = model
        self.accessed = {}

    def get(self, k, default=None):
        if k not in self.accessed:
            if k.startswith('d:'):
                v = max(E.model_value(self.model, z3.Real("q_" + k[2:])), 0.0) ** 0.5
            else:
                v = E.model_value(self.model, z3.Real("t_" + k[2:]))
            self.accessed[k] = v
        return self.accessed[k]


def eval_under(formula, table, extra=None):
    """Evaluate a z3 formula over q_/d_/t_ symbols under a concrete table (d, t floats; q := d*d) and extra
    name->float values (thresholds).  Returns True/False/None(undetermined)."""
    import fractions
    if isinstance(formula, bool):
        return formula
    subs = []
    for i, v in E.vars_of(formula, {}).items():
        n = v.decl().name()
        val = None
        if n.startswith('q_'):
            d = float(table.get('d:' + n[2:], 0.0))
            val = fractions.Fraction(d) * fractions.Fraction(d)
        elif n.startswith('d_'):
            val = fractions.Fraction(float(table.get('d:' + n[2:], 0.0)))
        elif n.startswith('t_'):
            val = fractions.Fraction(float(table.get('t:' + n[2:], 0.0)))
        elif extra is not None and n in extra:
            x = extra[n]
            if x in (float('inf'), -float('inf')):
                x = 1e300 if x > 0 else -1e300
            val = fractions.Fraction(float(x))
        if val is not None:
            if z3.is_bool(v):
                subs.append((v, z3.BoolVal(bool(val))))
            else:
                subs.append((v, z3.Q(val.numerator, val.denominator)))
    r = z3.simplify(z3.substitute(formula, *subs)) if subs else z3.simplify(formula)
    if z3.is_true(r):
        return True
    if z3.is_false(r):
        return False
    return None


def table_from_model(model, memo):
    """Concrete table for TableMap from a solver model and an AbsMap memo."""
    tab = {}
    for k, s in memo.items():
        if k.startswith('d:'):
            q = E.model_value(model, s.sq)
            tab[k] = max(q, 0.0) ** 0.5
        else:
            tab[k] = E.model_value(model, s.t)
    return tab


# ------------------------------------------------------------------------------------------------ graph library
def _canon(n, edges):
    best = None
    for perm in itertools.permutations(range(n)):
        e = tuple(sorted((perm[a], perm[b]) for a, b in edges))
        if best is None or e < best:
            best = e
    return best


def small_digraphs(n):
    """All digraphs on exactly n nodes (no isolated node, no self-loop) up to isomorphism."""
    pairs = [(a, b) for a in range(n) for b in range(n) if a != b]
    seen = {}
    for mask in range(1, 1 << len(pairs)):
        edges = [pairs[i] for i in range(len(pairs)) if mask >> i & 1]
        touched = set(itertools.chain.from_iterable(edges))
        if len(touched) != n:
            continue
        c = _canon(n, edges)
        if c not in seen:
            seen[c] = edges
    out = []
    for c in sorted(seen, key=lambda c: (len(c), c)):
        g = {chr(65 + i): [] for i in range(n)}
        for a, b in c:
            g[chr(65 + a)].append(chr(65 + b))
        out.append(g)
    return out


NAMED = {
    'oneway2': {"A": ["B"], "B": []},
    'line2': {"A": ["B"], "B": ["A"]},
    'line3': {"A": ["B"], "B": ["A", "C"], "C": ["B"]},
    'oneway3': {"A": ["B"], "B": ["C"], "C": []},
    'tri': {"A": ["B"], "B": ["C"], "C": ["A"]},
    'fork': {"A": ["B"], "B": ["C", "D"], "C": [], "D": []},
    'k3': {"A": ["B", "C"], "B": ["A", "C"], "C": ["A", "B"]},
    'path4': {"A": ["B"], "B": ["A", "C"], "C": ["B", "D"], "D": ["C"]},
    'oneway4': {"A": ["B"], "B": ["C"], "C": ["D"], "D": []},
    'sq': {"A": ["B", "D"], "B": ["A", "C"], "C": ["B", "D"], "D": ["C", "A"]},
    'star': {"A": ["B", "C", "D"], "B": ["A"], "C": ["A"], "D": ["A"]},
    'tri_chord': {"A": ["B"], "B": ["C", "D"], "C": ["A"], "D": ["A"]},
    'diamond': {"A": ["B", "C"], "B": ["D"], "C": ["D"], "D": []},
    'lasso': {"W": ["P"], "P": ["Q"], "Q": ["S"], "S": ["P"]},                      # one-way loop entered from outside
    'diamond6': {"A": ["B", "C"], "B": ["D"], "C": ["D"], "D": ["E"], "E": ["F"], "F": []},   # two routes reconverge, then two more edges
}


def graph_name(g):
    return ';'.join(f"{k}>{''.join(v)}" for k, v in g.items())


def library(max_nodes=3, named=()):
    """[(name, graph)]: every digraph on <= max_nodes nodes up to isomorphism + the named 4-node set."""
    out = []
    for n in range(2, max_nodes + 1):
        for g in small_digraphs(n):
            out.append((graph_name(g), g))
    for k in named:
        out.append((k, NAMED[k]))
    return out

"""Claims over a finished matcher object in G-abs: independent re-derivation of the reported probabilities along
the best path (C02), alignment with the observations (C03), walk-in-the-graph (C04), cut-offs (C05 part),
lattice well-formedness (C09).  Every function returns a list of (name, z3 formula | bool)."""
import math

import z3

from . import engine as E
from .absmap import key_pp, key_ps, key_ss, pname, t_of
from .matchlib import TOL, LOG09, LOG05, LOG099

BIGTOL = z3.Q(1, 10 ** 8)


def L(x):
    return E.lift(x)


def zb(b):
    return z3.BoolVal(bool(b))


def is_edge_state(m):
    return m.edge_m.l2 is not None


def state_of(m):
    return m.shortkey


def radicand(d):
    """squared value of a distance reported by the code (Sym with sqrt structure, or a number)."""
    if isinstance(d, E.Sym):
        return d.sq if d.sq is not None else d.t * d.t
    return E.rv(d) * E.rv(d)


class PathModel:
    """Documented model, evaluated along a concrete state/position sequence with the abstract map's symbols."""

    def __init__(self, mp, mt, cfg):
        self.mp, self.mt, self.cfg = mp, mt, cfg
        n, nne = cfg.noise, (cfg.noise if cfg.noise_ne is None else cfg.noise_ne)
        self.sig2 = 2 * n ** 2
        self.sig2_ne = 2 * nne ** 2
        self.beta = 2 * n ** 2           # dist_noise defaults to obs_noise
        self.beta_ne = 2 * n ** 2        # dist_noise_ne defaults to dist_noise
        nl = mt.ne_length_factor_log
        self.nelf = nl.t if isinstance(nl, E.Sym) else E.rv(nl)

    # ---- geometry of a lattice position ---------------------------------------------------
    def geo(self, state, obs, obs_ne):
        """(q = squared obs distance, name of the matched point on the map, name of the matched point on the
        observations, ti term) for `state` at lattice position (obs, obs_ne)."""
        mp = self.mp

        def oname(t):        # the name of the point actually observed at index t (a trace may repeat a point)
            try:
                return self.mt.path[t].name
            except (AttributeError, IndexError, TypeError):
                return f"o{t}"
        if obs_ne == 0:
            o = oname(obs)
            if isinstance(state, tuple):
                k = key_ps(o, f"n{state[0]}", f"n{state[1]}")
                return mp.q(k), "proj:" + k, o, E.lift(t_of(mp, k, f"n{state[0]}", f"n{state[1]}"))
            return mp.q(key_pp(o, f"n{state}")), f"n{state}", o, z3.RealVal(0)
        o1, o2 = oname(obs), oname(obs + 1)
        if isinstance(state, tuple):
            k = key_ss(f"n{state[0]}", f"n{state[1]}", o1, o2)
            return mp.q(k), "pf:" + k, "pt:" + k, E.lift(t_of(mp, "f:" + k, f"n{state[0]}", f"n{state[1]}"))
        k = key_ps(f"n{state}", o1, o2)
        return mp.q(k), f"n{state}", "proj:" + k, z3.RealVal(0)

    def D(self, a, b):
        if a == b:
            return z3.RealVal(0)
        return self.mp.sq(key_pp(a, b)).t

    @staticmethod
    def label(s):
        return f"{s[0]}-{s[1]}" if isinstance(s, tuple) else s

    def trans_term(self, P, ps, pne, s, ne, pim, pio, ti, pp_state):
        """documented transition term for the step from predecessor info P (dict with pim, pio, ti, d_o, d_s) in state ps
        (non-emitting iff pne) to state s (non-emitting iff ne) matched at map point pim / observation point pio, relative
        position ti; pp_state = state before the predecessor (for the going-back penalty).  Returns (term, d_o, d_s)."""
        cfg = self.cfg
        same_label = self.label(ps) == self.label(s)
        if cfg.fam == 'dist':
            dz = self.D(P['pio'], pio)
            same_edge = (ps == s) or (ps == (s[1], s[0]))
            connected = ps[1] == s[0]
            if same_edge or not connected:
                dx = self.D(P['pim'], pim)
            else:
                dx = self.D(P['pim'], f"n{self.mp.canon.get(ps[1], ps[1]) if hasattr(self.mp, 'canon') else ps[1]}") + \
                    self.D(f"n{self.mp.canon.get(ps[1], ps[1]) if hasattr(self.mp, 'canon') else ps[1]}", pim)
            if ne:
                dz = dz + P['d_o']
                dx = dx + P['d_s']
            beta = self.beta_ne if (pne or ne) else self.beta
            tr = -((dz - dx) * (dz - dx)) / E.rv(beta)
            if same_label:
                if cfg.goingback:
                    tr = tr + z3.If(ti < P['ti'], E.rv(LOG05), z3.RealVal(0))
            elif ps == (s[1], s[0]):
                if cfg.goingback:
                    tr = tr + E.rv(LOG05)
            else:
                if not connected:
                    tr = tr + E.rv(LOG05)
                elif cfg.goingback and pp_state is not None and self.label(pp_state) == self.label(s):
                    tr = tr + E.rv(LOG05)
            return tr, dz, dx
        if same_label:
            tr = z3.RealVal(0)
            if cfg.goingback and isinstance(s, tuple):
                tr = z3.If(ti < P['ti'], E.rv(LOG099), z3.RealVal(0))
        else:
            tr = E.rv(LOG09)
            if cfg.goingback and pp_state is not None and self.label(pp_state) == self.label(s):
                tr = tr + E.rv(LOG05)
        return tr, z3.RealVal(0), z3.RealVal(0)

    def rederive(self, seq, prevprev_of_first=None):
        """seq: list of (state, obs, obs_ne).  Returns per element a dict(logprob, logprobe, logprobne, length, q,
        d_o, d_s, ti) with the values the documented model assigns to that path prefix."""
        cfg = self.cfg
        out = []
        for i, (s, obs, ne) in enumerate(seq):
            q, pim, pio, ti = self.geo(s, obs, ne)
            em = -q / E.rv(self.sig2_ne if ne else self.sig2)
            if i == 0:
                out.append(dict(logprob=em, logprobe=em, logprobne=z3.RealVal(0), length=1, q=q, d_o=z3.RealVal(0),
                                d_s=z3.RealVal(0), ti=ti, pim=pim, pio=pio))
                continue
            ps, pobs, pne = seq[i - 1]
            P = out[-1]
            pp_state = seq[i - 2][0] if i >= 2 else None
            tr, d_o, d_s = self.trans_term(P, ps, pne, s, ne, pim, pio, ti, pp_state)
            delta = tr + em
            if ne == 0:
                lpe = P['logprob'] + delta
                lpne = z3.RealVal(0)
                lp = lpe
                length = P['length'] + 1
            else:
                lpe = P['logprobe'] + self.nelf
                lpne = z3.If(delta < P['logprobne'], delta, P['logprobne'])
                lp = lpe + lpne
                length = P['length']
            out.append(dict(logprob=lp, logprobe=lpe, logprobne=lpne, length=length, q=q, d_o=d_o, d_s=d_s, ti=ti,
                            pim=pim, pio=pio))
        return out


def seq_of(lattice_best):
    return [(m.shortkey, m.obs, m.obs_ne) for m in lattice_best]


def near(a, b, tol=BIGTOL):
    return z3.And(L(a) <= b + tol, L(a) >= b - tol)


def c02_claims(mp, mt, cfg):
    """Every state on the best path reports what the documented model assigns to that path prefix."""
    lb = mt.lattice_best
    if not lb:
        return []
    pm = PathModel(mp, mt, cfg)
    exp = pm.rederive(seq_of(lb))
    cl = []
    for i, (m, e) in enumerate(zip(lb, exp)):
        tag = f"[{i}:{m.label}]"
        cl.append((f"logprob{tag}", near(m.logprob, e['logprob'])))
        cl.append((f"length{tag}", zb(m.length == e['length'])))
        cl.append((f"dist_obs{tag}", radicand(m.dist_obs) == e['q']))
        if cfg.fam == 'dist' and i > 0:
            cl.append((f"d_o{tag}", near(m.d_o, e['d_o'])))
            cl.append((f"d_s{tag}", near(m.d_s, e['d_s'])))
    return cl


def c03_claims(mt, cfg, states, idx, unique, T):
    """Alignment of the best path with the observations; truthful index (structural part)."""
    cl = []
    lb = mt.lattice_best
    if not states:
        cl.append(('empty_result_has_index_0_and_empty_best_path', zb(idx == 0 and (states == [] or states is None and False) and not lb)))
        return cl
    obs = [m.obs for m in lb]
    cl.append(('starts_at_first_observation', zb(lb[0].obs == 0 and lb[0].obs_ne == 0)))
    ok = True
    for a, b in zip(lb, lb[1:]):
        if b.obs_ne == 0:
            ok &= (b.obs == a.obs + 1)                 # next observation, from any layer
        else:
            ok &= (b.obs == a.obs and b.obs_ne == a.obs_ne + 1)
    cl.append(('observations_in_order_one_emitting_state_each_nonemitting_in_between', zb(ok)))
    em = [m.obs for m in lb if m.obs_ne == 0]
    cl.append(('exactly_one_emitting_state_per_matched_observation', zb(em == list(range(idx + 1)))))
    cl.append(('last_state_is_emitting_at_index', zb(lb[-1].obs_ne == 0 and lb[-1].obs == idx) if cfg.ne is False else zb(max(obs) == idx or lb[-1].obs == idx)))
    keys = [m.shortkey for m in lb]
    if unique:
        exp = [k for i, k in enumerate(keys) if i == 0 or k != keys[i - 1]]
    else:
        exp = keys
    cl.append(('returned_list_is_the_best_path', zb(list(states) == exp)))
    cl.append(('no_stopped_state_on_best_path', zb(not any(m.stop for m in lb))))
    cl.append(('index_in_range', zb(0 <= idx <= T - 1)))
    return cl


def moves_ok(mp, a, b):
    """Is b the same state as a or a move the map offers from a (written from the graph dictionary)."""
    G = mp.G
    if a == b:
        return True
    if isinstance(a, tuple):
        u, v = a
        if isinstance(b, tuple):
            if b[0] == v and b[1] in G.get(v, []) and b[1] != v:
                return True
            return tuple(b) in [tuple(x) for x in mp.linked.get(a, [])]
        return b == v
    if isinstance(b, tuple):
        return b[0] == a and b[1] in G.get(a, []) and b[1] != a
    return b in G.get(a, [])


def state_exists(mp, s):
    if isinstance(s, tuple):
        return s[0] in mp.G and s[1] in mp.G[s[0]] and s[0] != s[1]
    return s in mp.G


def c04_claims(mp, mt, cfg, check_onlynodes=True):
    cl = []
    lb = mt.lattice_best
    if not lb:
        return cl
    keys = [m.shortkey for m in lb]
    cl.append(('every_state_exists_in_map', zb(all(state_exists(mp, k) for k in keys))))
    bad = [(a, b) for a, b in zip(keys, keys[1:]) if not moves_ok(mp, a, b)]
    cl.append(('consecutive_states_are_map_moves', zb(not bad)))
    if check_onlynodes and not mp.linked and not bad:
        try:
            nodes = mt.node_path_to_only_nodes(mt.node_path)
            adj = all((b in mp.G.get(a, [])) or (a in mp.G.get(b, [])) for a, b in zip(nodes, nodes[1:]))
            norep = all(a != b for a, b in zip(nodes, nodes[1:]))
            cl.append(('nodes_only_view_adjacent_without_repeats', zb(adj and norep and len(nodes) >= 1)))
        except E.PathAbort:
            raise
        except Exception as e:
            cl.append((f'nodes_only_view_computable ({type(e).__name__}: {e})', zb(False)))
    return cl


def c05_cutoff_claims(mt, cfg):
    """No state on the best path beyond max_dist (max_dist_init for the first), none below min_prob_norm."""
    cl = []
    lb = mt.lattice_best
    if not lb:
        return cl

    def md2(v):
        if isinstance(v, E.Sym):
            return v.sq
        if v == float('inf'):
            return None
        return E.rv(v) * E.rv(v)
    mdi, md = md2(mt.max_dist_init), md2(mt.max_dist)
    ml = mt.min_logprob_norm
    ml = ml.t if isinstance(ml, E.Sym) else (None if ml == -float('inf') else E.rv(ml))
    for i, m in enumerate(lb):
        q = radicand(m.dist_obs)
        if i == 0 and mdi is not None:
            cl.append((f'first_within_max_dist_init[{m.label}]', q < mdi))
        if md is not None:
            cl.append((f'within_max_dist[{i}:{m.label}]', q <= md))
        if ml is not None:
            cl.append((f'normalised_probability_above_minimum[{i}:{m.label}]', L(m.logprob) / m.length >= ml))
    return cl


def all_entries(mt):
    for ci, col in mt.lattice.items():
        for li, layer in enumerate(col.o):
            for key, m in layer.items():
                yield ci, li, key, m


def in_lattice(mt, p):
    col = mt.lattice.get(p.obs)
    if col is None or p.obs_ne >= len(col.o):
        return False
    return col.o[p.obs_ne].get(p.key) is p


def c09_claims(mt, cfg):
    """Lattice well-formedness over every entry."""
    struct_bad = []
    num = []
    for ci, li, key, m in all_entries(mt):
        tag = f"{m.label}"
        if not (m.key == key and m.obs == ci and m.obs_ne == li):
            struct_bad.append(f"{tag} filed under ({ci},{li},{key})")
        lp = L(m.logprob)
        num.append((f"prob_in_unit_interval[{tag}]", lp <= TOL))
        if ci == 0 and li == 0:
            if m.length != 1:
                struct_bad.append(f"{tag} length {m.length} != 1")
            if len(m.prev) != 0:
                struct_bad.append(f"{tag} start entry has predecessors")
            continue
        if len(m.prev) == 0:
            struct_bad.append(f"{tag} has no predecessor")
            continue
        best = None
        for p in m.prev:
            if not in_lattice(mt, p):
                struct_bad.append(f"{tag} predecessor {p.label} is not (or no longer) the lattice entry filed under its key")
            if li > 0:
                if not (p.obs == ci and p.obs_ne == li - 1):
                    struct_bad.append(f"{tag} predecessor {p.label} not in the directly preceding layer")
            else:
                if p.obs != ci - 1:
                    struct_bad.append(f"{tag} predecessor {p.label} not in the preceding column")
            if not m.stop and p.stop:
                struct_bad.append(f"{tag} is live but predecessor {p.label} is stopped")
        if len(m.prev) == 1:
            p = next(iter(m.prev))
            num.append((f"not_more_probable_than_predecessor[{tag}<-{p.label}]", lp <= L(p.logprob) + TOL))
            explen = p.length + 1 if li == 0 else p.length
            if m.length != explen:
                struct_bad.append(f"{tag} length {m.length}, predecessor {p.label} length {p.length}")
        else:
            struct_bad.append(f"{tag} has {len(m.prev)} best predecessors")
    cl = [('structure: ' + ('ok' if not struct_bad else '; '.join(struct_bad[:4])), zb(not struct_bad))]
    if num:
        cl.append(('numeric_invariants', z3.And(*[f for _, f in num])))
    return cl


def c09_concrete(mt):
    """Same invariants on a concrete (float) lattice.  Returns list of violation strings."""
    bad = []
    for ci, li, key, m in all_entries(mt):
        tag = m.label
        if not (m.key == key and m.obs == ci and m.obs_ne == li):
            bad.append(f"{tag} filed under ({ci},{li},{key})")
        if m.logprob > 1e-9:
            bad.append(f"{tag} logprob {m.logprob} > 0")
        if ci == 0 and li == 0:
            if m.length != 1 or len(m.prev):
                bad.append(f"{tag} start entry length {m.length} prev {len(m.prev)}")
            continue
        if len(m.prev) != 1:
            bad.append(f"{tag} has {len(m.prev)} best predecessors")
            continue
        p = next(iter(m.prev))
        if not in_lattice(mt, p):
            bad.append(f"{tag} predecessor {p.label} is not the lattice entry filed under its key")
        if li > 0 and not (p.obs == ci and p.obs_ne == li - 1):
            bad.append(f"{tag} predecessor {p.label} not in the directly preceding layer")
        if li == 0 and p.obs != ci - 1:
            bad.append(f"{tag} predecessor {p.label} not in the preceding column")
        if not m.stop and p.stop:
            bad.append(f"{tag} live but predecessor {p.label} stopped")
        if m.logprob > p.logprob + 1e-9:
            bad.append(f"{tag} logprob {m.logprob} > predecessor {p.label} {p.logprob}")
        if m.length != (p.length + 1 if li == 0 else p.length):
            bad.append(f"{tag} length {m.length} vs predecessor {p.length}")
    return bad

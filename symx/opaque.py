"""Opaque (uninterpreted) stand-ins for the transcendental functions used by dist_latlon: every call returns a fresh
symbolic real, memoised per (function, arguments).  Only the control flow and the *shape* handling of the code (indexing vs
unpacking, which values flow where) are exercised; no numeric claim is made under this shim."""
import math

import z3

from . import engine as E

NAMES = ('radians', 'cos', 'sin', 'asin', 'acos', 'sqrt', 'atan2', 'fabs', 'degrees', 'ceil', 'copysign')


class Opaque:
    def __init__(self):
        self.memo = {}
        self.saved = None

    def key(self, x):
        if isinstance(x, E.Sym):
            return ('s', x.t.get_id())
        return ('c', repr(x))

    def uf(self, name):
        real = getattr(math, name)

        def f(*args):
            if not any(isinstance(a, E.Sym) for a in args):
                return real(*args)
            k = (name,) + tuple(self.key(a) for a in args)
            if k not in self.memo:
                self.memo[k] = E.get_engine().fresh(f"{name}!{len(self.memo)}")
            return self.memo[k]
        return f

    def install(self):
        from leuvenmapmatching.util import dist_latlon as dl
        self.saved = {n: getattr(dl, n) for n in NAMES}
        self.memo = {}
        for n in ('radians', 'cos', 'sin', 'asin', 'acos', 'sqrt', 'atan2', 'degrees'):
            setattr(dl, n, self.uf(n))
        dl.fabs = lambda x: abs(x) if isinstance(x, E.Sym) else math.fabs(x)

        def copysign(a, b):
            if not isinstance(b, E.Sym):
                return math.copysign(a, b)
            return a if E.get_engine().decide(b.t >= 0) else -a
        dl.copysign = copysign
        dl.ceil = E.ShimMath(max_ceil=4).ceil

    def reset(self):
        self.memo = {}

    def uninstall(self):
        from leuvenmapmatching.util import dist_latlon as dl
        if self.saved:
            for n, f in self.saved.items():
                setattr(dl, n, f)
            self.saved = None

#!/bin/bash
# seed_test.sh <seed-dir-name> <Cxx> [tier]: apply a seeded change to /repo, run a check, undo the change.
# The evidence file of the check is saved and restored (evidence must come from runs on the unchanged tree).
S=$1; C=$2; T=${3:-quick}
cd /repo && git diff --quiet || { echo "/repo dirty"; exit 2; }
[ -f /verif/evidence/$C.json ] && cp /verif/evidence/$C.json /var/tmp/evidence_$C.keep
git -C /repo apply /verif/seeded/$S/patch.diff || exit 2
cd /verif && timeout ${SEED_TIMEOUT:-1500} ./check $C --tier $T > /tmp/seedtest_${S}_$C.log 2>&1; RC=$?
git -C /repo checkout -- .
[ -f /var/tmp/evidence_$C.keep ] && mv /var/tmp/evidence_$C.keep /verif/evidence/$C.json
rm -rf /verif/replays
echo "seed=$S check=$C exit=$RC"; grep -E "^VIOLATION|^HARNESS|^\[C" /tmp/seedtest_${S}_$C.log | head -4
grep -A1 "^VIOLATION" /tmp/seedtest_${S}_$C.log | grep -v "^VIOLATION" | head -1 | cut -c1-300

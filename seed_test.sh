#!/bin/bash
# seed_test.sh <seed-dir-name> <Cxx> [tier]: apply a seeded change to /repo, run a check, undo the change.
S=$1; C=$2; T=${3:-quick}
cd /repo && git diff --quiet || { echo "/repo dirty"; exit 2; }
git -C /repo apply /verif/seeded/$S/patch.diff || exit 2
cd /verif && timeout ${SEED_TIMEOUT:-1500} ./check $C --tier $T > /tmp/seedtest_${S}_$C.log 2>&1; RC=$?
git -C /repo checkout -- .
echo "seed=$S check=$C exit=$RC"; grep -E "^VIOLATION|^KNOWN|^HARNESS|^\[C" /tmp/seedtest_${S}_$C.log | head -6
grep -A1 "^VIOLATION" /tmp/seedtest_${S}_$C.log | grep -v "^VIOLATION" | head -2

import z3, time, sys
def run(F,tag):
    rm=z3.RNE()
    a,a2,b=[z3.FP(n,F) for n in 'a a2 b'.split()]
    fin=lambda x: z3.Not(z3.Or(z3.fpIsNaN(x), z3.fpIsInf(x)))
    s=z3.Solver(); s.add(fin(a),fin(a2),fin(b),z3.fpLEQ(a,a2)); s.add(z3.Not(z3.fpLEQ(z3.fpAdd(rm,a,b),z3.fpAdd(rm,a2,b))), fin(z3.fpAdd(rm,a,b)), fin(z3.fpAdd(rm,a2,b)))
    t0=time.time(); print(tag,"add monotone violated?", s.check(), f"{time.time()-t0:.1f}s", flush=True)
    lp,lpe,lpne,tr,ob,f=[z3.FP(n,F) for n in ['logprob','logprobe','logprobne','trans','obs','nefactor']]
    zero=z3.FPVal(0.0,F)
    pre=[fin(x) for x in (lp,lpe,lpne,tr,ob,f)]+[z3.fpLEQ(tr,zero),z3.fpLEQ(ob,zero),z3.fpLT(f,zero),z3.fpLEQ(lpne,zero)]
    delta=z3.fpAdd(rm,tr,ob)
    new_lpe=z3.fpAdd(rm,lpe,f); new_ne=z3.If(z3.fpLT(delta,lpne),delta,lpne); new_lp=z3.fpAdd(rm,new_lpe,new_ne)
    s=z3.Solver(); s.add(*pre); s.add(lp==z3.fpAdd(rm,lpe,lpne)); s.add(z3.fpGT(new_lp,lp)); t0=time.time(); print(tag,"non-emitting guard can fire?", s.check(), f"{time.time()-t0:.1f}s", flush=True)
run(z3.Float16(),'f16'); run(z3.Float32(),'f32'); run(z3.Float64(),'f64')

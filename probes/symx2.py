"""Prototype v2: symbolic-proxy executor over z3 reals with sqrt structure + model cache. Scratch probe only."""
import sys, math, time, fractions
import z3

INF = float('inf')


class Unsupported(Exception):
    pass


class PathAbort(BaseException):
    pass


def rv(x):
    if isinstance(x, bool):
        x = int(x)
    if isinstance(x, int):
        return z3.RealVal(x)
    if isinstance(x, fractions.Fraction):
        return z3.Q(x.numerator, x.denominator)
    x = float(x)
    if x != x or x in (INF, -INF):
        raise Unsupported(f"non-finite constant {x}")
    fr = fractions.Fraction(repr(x))
    return z3.Q(fr.numerator, fr.denominator)


def nonfinite(o):
    if isinstance(o, (Sym, SymBool, int, fractions.Fraction)):
        return False
    try:
        f = float(o)
    except Exception:
        return False
    return f != f or f in (INF, -INF)


def lift(o):
    if isinstance(o, Sym):
        return o.t
    if isinstance(o, SymBool):
        return z3.If(o.t, z3.RealVal(1), z3.RealVal(0))
    return rv(o)


class Sym:
    __slots__ = ('t', 'sq', 'absof')
    __array_priority__ = 1000

    def __init__(self, t, sq=None, absof=None):
        self.t = t
        self.sq = sq        # if not None: t is an aux var equal to sqrt(sq)
        self.absof = absof  # if not None: t == |absof|

    def square(self):
        if self.sq is not None:
            return Sym(self.sq)
        if self.absof is not None:
            return Sym(self.absof * self.absof)
        return Sym(self.t * self.t)

    def __add__(self, o):
        if nonfinite(o): return float(o)
        return Sym(self.t + lift(o))
    __radd__ = __add__

    def __sub__(self, o):
        if nonfinite(o): return -float(o)
        return Sym(self.t - lift(o))

    def __rsub__(self, o):
        if nonfinite(o): return float(o)
        return Sym(lift(o) - self.t)

    def __mul__(self, o):
        if nonfinite(o): raise Unsupported("sym*inf")
        if isinstance(o, Sym) and o.t.get_id() == self.t.get_id():
            return self.square()
        return Sym(self.t * lift(o))
    __rmul__ = __mul__

    def __truediv__(self, o):
        if nonfinite(o):
            return 0.0
        ot = lift(o)
        if isinstance(o, Sym):
            if ENGINE.decide(ot == 0):
                raise ZeroDivisionError("float division by zero")
        return Sym(self.t / ot)

    def __rtruediv__(self, o):
        if ENGINE.decide(self.t == 0):
            raise ZeroDivisionError("float division by zero")
        if nonfinite(o): raise Unsupported("inf/sym")
        return Sym(lift(o) / self.t)

    def __neg__(self):
        return Sym(-self.t)

    def __pos__(self):
        return self

    def __abs__(self):
        if self.sq is not None:
            return self
        return Sym(z3.If(self.t >= 0, self.t, -self.t), absof=self.t)

    def __pow__(self, o):
        if isinstance(o, int) and o == 2:
            return self.square()
        if isinstance(o, int) and 0 <= o <= 4:
            r = z3.RealVal(1)
            for _ in range(o):
                r = r * self.t
            return Sym(r)
        raise Unsupported(f"pow {o}")

    def _cmp(self, o, op):
        if nonfinite(o):
            o = float(o)
            if o != o: return op == 'ne'
            pos = o > 0
            return {'lt': pos, 'le': pos, 'gt': not pos, 'ge': not pos, 'eq': False, 'ne': True}[op]
        a, b = self, o
        # sqrt-aware comparison: compare radicands
        if isinstance(a, Sym) and a.sq is not None:
            if isinstance(b, Sym) and b.sq is not None:
                return SymBool(_OPS[op](a.sq, b.sq))
            if not isinstance(b, (Sym, SymBool)):
                c = float(b)
                if c < 0:
                    return {'lt': False, 'le': False, 'gt': True, 'ge': True, 'eq': False, 'ne': True}[op]
                return SymBool(_OPS[op](a.sq, rv(b) * rv(b)))
        return SymBool(_OPS[op](a.t, lift(b)))

    def __lt__(self, o): return self._cmp(o, 'lt')
    def __le__(self, o): return self._cmp(o, 'le')
    def __gt__(self, o): return self._cmp(o, 'gt')
    def __ge__(self, o): return self._cmp(o, 'ge')

    def __eq__(self, o):
        if o is None or isinstance(o, (str, tuple)): return False
        return self._cmp(o, 'eq')

    def __ne__(self, o):
        if o is None or isinstance(o, (str, tuple)): return True
        return self._cmp(o, 'ne')

    def __hash__(self):
        return id(self)

    def __bool__(self):
        return ENGINE.decide(self.t != 0)

    def __float__(self):
        raise Unsupported("float(Sym) — realisation at a C boundary")

    def __format__(self, spec):
        return "<sym>"

    def __repr__(self):
        return f"Sym({self.t})"


_OPS = {'lt': lambda a, b: a < b, 'le': lambda a, b: a <= b, 'gt': lambda a, b: a > b,
        'ge': lambda a, b: a >= b, 'eq': lambda a, b: a == b, 'ne': lambda a, b: a != b}


class SymBool:
    __slots__ = ('t',)

    def __init__(self, t):
        self.t = t

    def __bool__(self):
        return ENGINE.decide(self.t)

    def __and__(self, o):
        return SymBool(z3.And(self.t, o.t if isinstance(o, SymBool) else z3.BoolVal(bool(o))))
    __rand__ = __and__

    def __or__(self, o):
        return SymBool(z3.Or(self.t, o.t if isinstance(o, SymBool) else z3.BoolVal(bool(o))))
    __ror__ = __or__

    def __invert__(self):
        return SymBool(z3.Not(self.t))


def smin(*a):
    if len(a) == 1: a = tuple(a[0])
    if not any(isinstance(x, Sym) for x in a):
        return min(a)
    r = a[0]
    for x in a[1:]:
        if nonfinite(x):
            if float(x) < 0: return float(x)
            continue
        if nonfinite(r):
            if float(r) > 0: r = x
            continue
        rt, xt = lift(r), lift(x)
        r = Sym(z3.If(xt < rt, xt, rt))
    return r


def smax(*a):
    if len(a) == 1: a = tuple(a[0])
    if not any(isinstance(x, Sym) for x in a):
        return max(a)
    r = a[0]
    for x in a[1:]:
        rt, xt = lift(r), lift(x)
        r = Sym(z3.If(xt > rt, xt, rt))
    return r


class ShimMath:
    def __getattr__(self, k):
        return getattr(math, k)

    @staticmethod
    def sqrt(x):
        if not isinstance(x, Sym):
            return math.sqrt(x)
        return ENGINE.sqrt(x)


class ShimNp:
    def __init__(self):
        import numpy
        self._np = numpy
        self.inf = numpy.inf

    def __getattr__(self, k):
        return getattr(self._np, k)

    def isclose(self, a, b, rtol=1e-5, atol=1e-8):
        if not isinstance(a, Sym) and not isinstance(b, Sym):
            return bool(self._np.isclose(a, b, rtol=rtol, atol=atol))
        if rtol == 0:
            dt = lift(a) - lift(b)
            return SymBool(z3.And(dt <= rv(atol), -dt <= rv(atol)))
        d = abs(a - b)
        return d <= atol + rtol * abs(b)

    def allclose(self, a, b, rtol=1e-5, atol=1e-8):
        for x, y in zip(a, b):
            if not self.isclose(x, y, rtol=rtol, atol=atol):
                return False
        return True


def vars_of(t, acc):
    stack = [t]; seen = set()
    while stack:
        e = stack.pop()
        i = e.get_id()
        if i in seen: continue
        seen.add(i)
        if z3.is_const(e) and e.decl().kind() == z3.Z3_OP_UNINTERPRETED:
            acc[i] = e
        stack.extend(e.children())
    return acc


class Engine:
    def __init__(self, timeout_ms=10000, lazy=False, cache=True, strategy='inc'):
        self.strategy = strategy
        self.qlog = []
        self.timeout_ms = timeout_ms
        self.lazy = lazy
        self.use_cache = cache
        self.stats = dict(paths=0, decisions=0, queries=0, solver_s=0.0, unknown=0, forced=0, cache_hits=0, infeasible=0)
        self.models = []      # global model cache
        self.reset_path([])

    def reset_path(self, prefix):
        self.prefix = prefix
        self.idx = 0
        self.pc = []
        self.solver = z3.Solver()
        self.solver.set('timeout', self.timeout_ms)
        self.trace = []
        self.memo = {}
        self.naux = 0
        self.sqrt_memo = {}
        self.defs = {}
        self.defs_added = set()
        self.live_models = list(self.models)
        self.path_unknown = False

    def fresh(self, name):
        return Sym(z3.Real(name))

    def _add(self, c):
        # pull in definitions of aux vars
        acc = vars_of(c, {})
        todo = [i for i in acc if i in self.defs and i not in self.defs_added]
        while todo:
            i = todo.pop()
            if i in self.defs_added: continue
            self.defs_added.add(i)
            d = self.defs[i]
            self.pc.append(d); self.solver.add(d)
            self.live_models = [m for m in self.live_models if self._holds(m, d)]
            for j in vars_of(d, {}):
                if j in self.defs and j not in self.defs_added:
                    todo.append(j)
        self.pc.append(c)
        self.solver.add(c)
        self.live_models = [m for m in self.live_models if self._holds(m, c)]

    @staticmethod
    def _holds(m, c):
        try:
            return z3.is_true(m.eval(c, model_completion=True))
        except Exception:
            return False

    def assume(self, c):
        self._add(c.t if isinstance(c, SymBool) else c)

    def sqrt(self, x):
        key = x.t.get_id()
        if key in self.sqrt_memo:
            return self.sqrt_memo[key]
        if self.decide(x.t < 0):
            raise ValueError("math domain error")
        self.naux += 1
        s = z3.Real(f"sqrt!{self.naux}")
        self.defs[s.get_id()] = z3.And(s >= 0, s * s == x.t)
        r = Sym(s, sq=x.t)
        self.sqrt_memo[key] = r
        return r

    def check(self, *assumptions):
        # make sure defs for aux vars in assumptions are present
        for a in assumptions:
            for i in vars_of(a, {}):
                if i in self.defs and i not in self.defs_added:
                    self.defs_added.add(i); d = self.defs[i]
                    self.pc.append(d); self.solver.add(d)
                    self.live_models = [m for m in self.live_models if self._holds(m, d)]
        t0 = time.time()
        if self.strategy == 'inc':
            r = self.solver.check(*assumptions)
            slv = self.solver
        else:
            slv = z3.SolverFor('QF_NRA'); slv.set('timeout', self.timeout_ms)
            slv.add(*self.pc); slv.add(*assumptions)
            r = slv.check()
        self.stats['queries'] += 1
        dt = time.time() - t0
        self.qlog.append((dt, str(r), len(self.pc)))
        if r == z3.unknown and not getattr(self, '_dumped', False):
            self._dumped = True
            ss = z3.Solver(); ss.add(*self.pc); ss.add(*assumptions)
            open('/var/tmp/probe/unk.smt2','w').write("(set-logic QF_NRA)\n"+ss.sexpr()+"(check-sat)\n")
        self.stats['solver_s'] += dt
        if r == z3.sat and self.use_cache:
            m = slv.model()
            self.models.append(m)
            if len(self.models) > 60:
                self.models.pop(0)
            self.live_models.append(m)
        return r

    def decide(self, cond):
        cond = z3.simplify(cond)
        if z3.is_true(cond): return True
        if z3.is_false(cond): return False
        key = cond.get_id()
        if key in self.memo:
            return self.memo[key]
        self.stats['decisions'] += 1
        if self.idx < len(self.prefix):
            take = self.prefix[self.idx]
        elif self.lazy:
            self.worklist.append(list(self.trace) + [False])
            take = True
        else:
            ft = ff = None
            if self.use_cache:
                for m in self.live_models:
                    v = m.eval(cond, model_completion=True)
                    if z3.is_true(v): ft = True
                    elif z3.is_false(v): ff = True
                    if ft and ff: break
                if ft and ff: self.stats['cache_hits'] += 1
            if ft is None:
                rt = self.check(cond)
                if rt == z3.unknown: self.stats['unknown'] += 1; self.path_unknown = True
                ft = rt != z3.unsat
            if ff is None:
                rf = self.check(z3.Not(cond))
                if rf == z3.unknown: self.stats['unknown'] += 1; self.path_unknown = True
                ff = rf != z3.unsat
            if ft and ff:
                self.worklist.append(list(self.trace) + [False])
                take = True
            elif ft:
                take = True; self.stats['forced'] += 1
            elif ff:
                take = False; self.stats['forced'] += 1
            else:
                raise PathAbort("infeasible path")
        self.trace.append(take)
        self.idx += 1
        self._add(cond if take else z3.Not(cond))
        self.memo[key] = take
        return take

    def explore(self, fn, on_path, max_paths=None):
        self.worklist = [[]]
        while self.worklist:
            prefix = self.worklist.pop()
            self.reset_path(prefix)
            try:
                res = ('ok', fn())
            except PathAbort:
                self.stats['infeasible'] += 1
                continue
            except Unsupported as e:
                res = ('unsupported', e)
            except Exception as e:
                res = ('exc', e)
            self.stats['paths'] += 1
            on_path(self, res)
            if max_paths and self.stats['paths'] >= max_paths:
                break
        return self.stats

    def full_pc(self, extra=()):
        cons = list(self.pc) + list(extra)
        done = set(self.defs_added); changed = True
        while changed:
            changed = False
            acc = {}
            for c in cons: vars_of(c, acc)
            for i in acc:
                if i in self.defs and i not in done:
                    done.add(i); cons.append(self.defs[i]); changed = True
        return cons


ENGINE = None


def set_engine(e):
    global ENGINE
    ENGINE = e
    return e

import z3, time
F=z3.Float64(); rm=z3.RNE()
lp,lpe,lpne,tr,ob,f=[z3.FP(n,F) for n in ['logprob','logprobe','logprobne','trans','obs','nefactor']]
fin=lambda x: z3.Not(z3.Or(z3.fpIsNaN(x), z3.fpIsInf(x)))
zero=z3.FPVal(0.0,F)
pre=[fin(x) for x in (lp,lpe,lpne,tr,ob,f)]+[z3.fpLEQ(tr,zero),z3.fpLEQ(ob,zero),z3.fpLT(f,zero),z3.fpLEQ(lpne,zero)]
delta=z3.fpAdd(rm,tr,ob)
new_e=z3.fpAdd(rm,lp,delta)
s=z3.Solver(); s.add(*pre); s.add(z3.fpGT(new_e,lp)); t0=time.time(); print("emitting guard can fire?", s.check(), f"{time.time()-t0:.1f}s", flush=True)
new_lpe=z3.fpAdd(rm,lpe,f); new_ne=z3.If(z3.fpLT(delta,lpne),delta,lpne); new_lp=z3.fpAdd(rm,new_lpe,new_ne)
s=z3.Solver(); s.add(*pre); s.add(lp==z3.fpAdd(rm,lpe,lpne)); s.add(z3.fpGT(new_lp,lp)); t0=time.time(); print("non-emitting guard can fire?", s.check(), f"{time.time()-t0:.1f}s", flush=True)

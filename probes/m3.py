"""G-abs probe: real matcher code over an abstract map (fresh symbolic distances), LRA."""
import sys, time, logging, itertools, math, os
sys.path.insert(0,'/repo'); sys.path.insert(0,'/var/tmp/probe')
import z3, symx2 as symx
from symx2 import Sym, Engine, set_engine, lift, rv
from leuvenmapmatching.matcher import base as mb
from leuvenmapmatching.matcher.distance import DistanceMatcher
from leuvenmapmatching.matcher.simple import SimpleMatcher
from leuvenmapmatching.map.base import BaseMap
logging.getLogger("be.kuleuven.cs.dtai.mapmatching").setLevel(logging.ERROR)
mb.min = symx.smin
gname=sys.argv[1]; T=int(sys.argv[2]); fam=sys.argv[3]; NE=len(sys.argv)>5 and sys.argv[5]=='ne'
graphs={
 'line2': {"A":["B"],"B":["A"]},
 'line3': {"A":["B"],"B":["A","C"],"C":["B"]},
 'tri':   {"A":["B"],"B":["C"],"C":["A"]},
 'fork':  {"A":["B"],"B":["C","D"],"C":[],"D":[]},
 'sq':    {"A":["B","D"],"B":["A","C"],"C":["B","D"],"D":["C","A"]},
 'k3':    {"A":["B","C"],"B":["A","C"],"C":["A","B"]},
}
G=graphs[gname]
class P(tuple):
    """opaque point"""
    def __new__(cls,name):
        o=tuple.__new__(cls,(name+".y",name+".x")); o.name=name; return o
class HalfNormShim:
    def __init__(self, scale): self.scale=scale
    def logpdf(self, x):
        return math.log(math.sqrt(2/math.pi)) - math.log(self.scale) - (x*x)/(2*self.scale**2)
E = set_engine(Engine(timeout_ms=10000, strategy='inc'))
class AbsMap(BaseMap):
    def __init__(self):
        super().__init__("abs",use_latlon=False)
        self.memo={}
        self.distance=self._distance; self.distance_point_to_segment=self._dps; self.distance_segment_to_segment=self._dss
        self.loc={n:P(n) for n in G}
    def _sq(self,key):
        if key not in self.memo:
            q=z3.Real("q_"+key); E.assume(q>=0)
            s=z3.Real("d_"+key); E.defs[s.get_id()]=z3.And(s>=0,s*s==q)
            self.memo[key]=Sym(s,sq=q)
        return self.memo[key]
    def _t(self,key):
        if key not in self.memo:
            t=z3.Real("t_"+key); E.assume(z3.And(t>=0,t<=1)); self.memo[key]=Sym(t)
        return self.memo[key]
    def _distance(self,p1,p2):
        a,b=sorted([p1.name,p2.name])
        if a==b: return 0.0
        return self._sq(f"pp[{a}|{b}]")
    def _dps(self,p,s1,s2,delta=0.0):
        k=f"ps[{p.name}|{s1.name}>{s2.name}]"
        return self._sq(k), P("proj"+k), self._t(k)
    def _dss(self,f1,f2,t1,t2):
        k=f"ss[{f1.name}>{f2.name}|{t1.name}>{t2.name}]"
        return self._sq(k), P("pf"+k), P("pt"+k), self._t("f"+k), self._t("t"+k)
    def node_coordinates(self,n): return self.loc[n]
    def nodes_nbrto(self,n): return [(m,self.loc[m]) for m in G[n]+[n]]
    def edges_nbrto(self,e):
        l1,l2=e; return [(l2,self.loc[l2],l3,p3) for l3,p3 in self.nodes_nbrto(l2)]
    def edges_closeto(self,loc,max_dist=None,max_elmt=None):
        res=[]
        for u in G:
            for v in G[u]:
                if u==v: continue
                d,pi,ti=self._dps(loc,self.loc[u],self.loc[v])
                if d<max_dist: res.append((d,u,self.loc[u],v,self.loc[v],pi,ti))
        return res
    def nodes_closeto(self,loc,max_dist=None,max_elmt=None): raise NotImplementedError
    def bb(self): pass
    def labels(self): return list(G)
    def size(self): return len(G)
    def all_nodes(self,bb=None): pass
    def all_edges(self,bb=None): pass
def run():
    m=AbsMap()
    path=[P(f"o{i}") for i in range(T)]
    if fam=='simple':
        mt=SimpleMatcher(m,non_emitting_states=NE,obs_noise=1.0,avoid_goingback=False)
        mt.obs_noise_dist=HalfNormShim(mt.obs_noise); mt.obs_noise_dist_ne=HalfNormShim(mt.obs_noise_ne)
    else:
        mt=DistanceMatcher(m,non_emitting_states=NE,obs_noise=1.0,avoid_goingback=False)
    states,idx=mt.match(path)
    return m,mt,path,states,idx
edges=[(u,v) for u in G for v in G[u] if v!=u]
def succ(e):
    u,v=e
    return [e]+[(v,w) for w in G[v] if w!=v]
tot={}; qt=[0.0]
def on_path(E,r):
    kind,val=r
    if kind!='ok':
        k=f"{kind}:{type(val).__name__}:{val}"; tot[k]=tot.get(k,0)+1; return
    m,mt,path,states,idx=val
    if fam!='simple' or NE:
        tot['ok']=tot.get('ok',0)+1
    else:
        em={(e,t): -m._sq(f"ps[o{t}|{e[0]}>{e[1]}]").sq/2 for e in edges for t in range(T)}
        lt=rv(math.log(0.9))
        walks=[[e] for e in edges]
        for t in range(1,T):
            walks=[w+[s] for w in walks for s in succ(w[-1])]
        def score(w):
            s=em[(w[0],0)]
            for t in range(1,T):
                s=s+em[(w[t],t)]+(0 if w[t]==w[t-1] else lt)
            return s
        L=lift(mt.lattice_best[-1].logprob)
        got=[(x.edge_m.l1,x.edge_m.l2) for x in mt.lattice_best]
        tol=z3.Q(1,10**9); sg=score(got)
        claim=z3.And(idx==T-1, L<=sg+tol, L>=sg-tol, *[L>=score(w)-tol for w in walks])
        t0=time.time()
        s=z3.Solver(); s.set('timeout',20000); s.add(*E.full_pc()); s.add(z3.Not(claim)); r=s.check(); qt[0]+=time.time()-t0
        k={'unsat':'proved','sat':'CEX','unknown':'unknown'}[str(r)]
        tot[k]=tot.get(k,0)+1
        if r==z3.sat and tot[k]<3: print("CEX", s.model(), got)
    if E.stats['paths']%500==0: print(E.stats['paths'], tot, f"assert_s={qt[0]:.1f} wall={time.time()-t00:.0f}", flush=True)
t00=time.time()
st=E.explore(run,on_path,max_paths=int(sys.argv[4]) if len(sys.argv)>4 and sys.argv[4]!='0' else None)
print("FINAL",st,tot,f"assert_s={qt[0]:.1f}","wall",time.time()-t00, "edges", len(edges))

import sys, logging, subprocess, os, json
sys.path.insert(0,'/repo')
from leuvenmapmatching.map.inmem import InMemMap
from leuvenmapmatching.matcher.simple import SimpleMatcher
from leuvenmapmatching.matcher.distance import DistanceMatcher
lg=logging.getLogger("be.kuleuven.cs.dtai.mapmatching"); lg.addHandler(logging.NullHandler())
g={"A":((0,0),["B"]),"B":((0,1),["A","C"]),"C":((0,2),["B"])}
def run(level, path, **kw):
    lg.setLevel(level)
    m=InMemMap("m",graph=g,use_latlon=False)
    mt=DistanceMatcher(m,**kw)
    try:
        r=mt.match(path)
        return r, [ (x.key, round(x.logprob,6)) for x in (mt.lattice_best or [])]
    except Exception as e:
        return "RAISED "+repr(e), None
# C19: first observation too far -> no start candidates
for path,kw in [([(5,5),(0.1,0.5)], dict(max_dist=1.0,obs_noise=1.0,non_emitting_states=False)),
                ([(0.1,0.5),(5,5),(0.1,1.5)], dict(max_dist=1.0,obs_noise=1.0,non_emitting_states=False)),
                ([(0.1,0.5),(0.1,1.5),(5,5)], dict(max_dist=1.0,obs_noise=1.0,non_emitting_states=True)),
                ([(0.1,0.5),(0.6,1.5)], dict(max_dist=2.0,min_prob_norm=0.9,obs_noise=1.0,non_emitting_states=True))]:
    a=run(logging.ERROR,path,**kw); b=run(logging.DEBUG,path,**kw)
    print("C19", path, "ERROR:",a[0],"| DEBUG:",b[0], "SAME" if a==b else "DIFF")
# C08 incremental vs one-shot on the docs example
lg.setLevel(logging.ERROR)
G2={"A":((1,1),["B","C","X"]),"B":((1,3),["A","C","D","K"]),"C":((2,2),["A","B","D","E","X","Y"]),"D":((2,4),["B","C","F","E","K","L"]),"E":((3,3),["C","D","F","Y"]),"F":((3,5),["D","E","L"]),"X":((2,0),["A","C","Y"]),"Y":((3,1),["X","C","E"]),"K":((1,5),["B","D","L"]),"L":((2,6),["K","D","F"])}
path=[(0.8,0.7),(0.9,0.7),(1.1,1.0),(1.2,1.5),(1.2,1.6),(1.1,2.0),(1.1,2.3),(1.3,2.9),(1.2,3.1),(1.5,3.2),(1.8,3.5),(2.0,3.7),(2.3,3.5),(2.4,3.2),(2.6,3.1),(2.9,3.1),(3.0,3.2),(3.1,3.8),(3.0,4.0),(3.1,4.3),(3.1,4.6),(3.0,4.9)]
for ne in (False,True):
  diffs=[]
  for k in range(1,len(path)):
    m=InMemMap("m",graph=G2,use_latlon=False)
    kw=dict(max_dist=2,obs_noise=1,min_prob_norm=0.5,non_emitting_states=ne)
    a=DistanceMatcher(m,**kw); ra=a.match(path)
    b=DistanceMatcher(m,**kw); b.match(path[:k]); rb=b.match(path,expand=True)
    if ra!=rb or abs(a.lattice_best[-1].logprob-b.lattice_best[-1].logprob)>1e-9: diffs.append((k,ra[1],rb[1],a.lattice_best[-1].logprob,b.lattice_best[-1].logprob))
  print("C08 ne=",ne,"splits that differ:",diffs[:6], len(diffs))

import sys, logging
sys.path.insert(0,'/repo')
from leuvenmapmatching.map.inmem import InMemMap
from leuvenmapmatching.matcher.distance import DistanceMatcher
logging.getLogger("be.kuleuven.cs.dtai.mapmatching").setLevel(logging.ERROR)
g={"A":((0,0),["B"]),"B":((0,1),["A","C","E"]),"C":((0,2),["B","D"]),"D":((0,3),["C"]),"E":((1,1),["B","F"]),"F":((2,1),["E"])}
m=InMemMap("m",graph=g,use_latlon=False)
path=[(0.1,0.5),(0.6,2.2),(9,9)]
mt=DistanceMatcher(m,max_dist=0.55,max_dist_init=1,obs_noise=1.0,obs_noise_ne=2.0,non_emitting_states=True)
r=mt.match(path)
print(r, [(x.key, round(float(x.logprob),4)) for x in mt.lattice_best], "| col0:", sorted((x.key,round(float(x.logprob),4),x.stop) for x in mt.lattice[0].values_all()))

import sys, math
sys.path.insert(0,'/repo')
from leuvenmapmatching.map.inmem import InMemMap
from leuvenmapmatching.matcher.simple import SimpleMatcher
from leuvenmapmatching.matcher.distance import DistanceMatcher
import logging
logging.getLogger("be.kuleuven.cs.dtai.mapmatching").setLevel(logging.ERROR)
g={"A":((0,0),["B"]),"B":((0,1),["A","C"]),"C":((0,2),["B"])}
m=InMemMap("m",graph=g,use_latlon=False)
for cls in (SimpleMatcher,DistanceMatcher):
  for ne in (False,True):
    for trip in (False,True):
        path=[(0.1,0.1),(0.1,1.9)]
        if trip: path=[p+(i,) for i,p in enumerate(path)]
        try:
            mt=cls(m,non_emitting_states=ne,obs_noise=1.0)
            r=mt.match(path)
            print(cls.__name__,ne,trip,r, mt.lattice_best[-1].logprob if mt.lattice_best else None)
        except Exception as e:
            print(cls.__name__,ne,trip,"RAISED",type(e).__name__,e)
# dist zero guard
for noise in (1,0.5,0.3,2.0,10,50,0.1,3.7):
    mt=SimpleMatcher(m,obs_noise=noise,non_emitting_states=False)
    v=mt.logprob_obs(0.0,None,None,None)[0]
    print("noise",noise,"logprob_obs(0)=",repr(float(v)))

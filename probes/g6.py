import sys, time
sys.path.insert(0,'/repo'); sys.path.insert(0,'/var/tmp/probe')
import z3, symx
from symx import Sym, Engine, set_engine
from leuvenmapmatching.util import dist_euclidean as de
de.math = symx.ShimMath(); de.np = symx.ShimNp(); de.max = symx.smax; de.min = symx.smin
mode=sys.argv[1]; TO=int(sys.argv[2]) if len(sys.argv)>2 else 20000
E = set_engine(Engine(timeout_ms=5000, lazy=True))
names=['x3','y3','x4','y4']
def run():
    v = {k: E.fresh(k) for k in names}
    if mode=='unit': f1,f2=(0,0),(1,0)
    elif mode=='diag': f1,f2=(0.5,-1.0),(2.0,3.0)
    elif mode=='L':
        L_=E.fresh('L'); E.assume(L_.t>0); f1,f2=(0,0),(L_,0)
    elif mode=='full':
        f1=(E.fresh('x1'),E.fresh('y1')); f2=(E.fresh('x2'),E.fresh('y2'))
    v['f1']=f1; v['f2']=f2
    out = de.distance_segment_to_segment(f1,f2,(v['x3'],v['y3']),(v['x4'],v['y4']))
    return v, out
def fresh_check(cons, logic='QF_NRA', to=None):
    s = z3.SolverFor(logic) if logic else z3.Solver(); s.set('timeout',to or TO)
    s.add(*cons); t0=time.time(); r=s.check(); return r, time.time()-t0, (s.model() if r==z3.sat else None)
tot={}
def bump(k): tot[k]=tot.get(k,0)+1
def on_path(E, r):
    kind, val = r
    if kind != 'ok':
        r0,t0_,m=fresh_check(E.pc)
        bump(f'exc:{type(val).__name__}:{r0}')
        if r0==z3.sat: print("  EXC path feasible", repr(val), E.trace, m)
        return
    v, (d,pf,pt,uf,ut) = val
    r0,t0_,_ = fresh_check(E.pc)
    if r0==z3.unsat: bump('infeasible'); return
    Lf = Sym.lift
    (x1,y1),(x2,y2)=[(Lf(p[0]),Lf(p[1])) for p in (v['f1'],v['f2'])]
    x3,y3,x4,y4=[v[k].t for k in names]
    u,a,b = z3.Reals('u a b')
    d2 = lambda p,q,r,s: (p-r)*(p-r)+(q-s)*(q-s)
    tol = z3.Q(1,10**6); dd = Lf(d)
    res=[]
    # structural
    uf_,ut_=Lf(uf),Lf(ut); pfx,pfy,ptx,pty=Lf(pf[0]),Lf(pf[1]),Lf(pt[0]),Lf(pt[1])
    struct = z3.And(uf_>=0,uf_<=1,ut_>=0,ut_<=1, pfx==x1+uf_*(x2-x1), pfy==y1+uf_*(y2-y1), ptx==x3+ut_*(x4-x3), pty==y3+ut_*(y4-y3), dd>=0, dd*dd==d2(pfx,pfy,ptx,pty))
    rs,ts,ms=fresh_check(E.pc+[z3.Not(struct)]); res.append(('S',rs,ts))
    # minimality vs 4 endpoint projections
    segs={'f1->t':((x1,y1),(x3,y3),(x4,y4)),'f2->t':((x2,y2),(x3,y3),(x4,y4)),'t1->f':((x3,y3),(x1,y1),(x2,y2)),'t2->f':((x4,y4),(x1,y1),(x2,y2))}
    cex=None
    for nm,((ex,ey),(sx,sy),(tx,ty)) in segs.items():
        qx=sx+u*(tx-sx); qy=sy+u*(ty-sy)
        neg=[u>=0,u<=1, dd>tol, d2(ex,ey,qx,qy) < (dd-tol)*(dd-tol)]
        rr,tt,mm=fresh_check(E.pc+neg); res.append((nm,rr,tt))
        if mm is not None: cex=(nm,mm)
    # intersection
    neg=[a>=0,a<=1,b>=0,b<=1, x1+a*(x2-x1)==x3+b*(x4-x3), y1+a*(y2-y1)==y3+b*(y4-y3), dd>tol]
    rr,tt,mm=fresh_check(E.pc+neg); res.append(('X',rr,tt))
    if mm is not None: cex=('X',mm)
    ks=[str(r[1]) for r in res]
    k='cex' if 'sat' in ks else ('unknown' if 'unknown' in ks else 'proved')
    bump(k)
    print(f"  path#{E.stats['paths']} {E.trace} {k}: "+" ".join(f"{n}:{r}:{t:.1f}" for n,r,t in res))
    if cex is not None:
        nm,m=cex
        def val(x):
            x=m.eval(x,model_completion=True)
            return float(x.as_fraction()) if z3.is_rational_value(x) else float(x.approx(12).as_fraction())
        pts=[(val(x1),val(y1)),(val(x2),val(y2)),(val(x3),val(y3)),(val(x4),val(y4))]
        import numpy, math
        de.math=math; de.np=numpy; del de.max; del de.min
        print("    cex",nm, pts, "sym d=",val(dd), "real:", de.distance_segment_to_segment(*pts))
        de.math = symx.ShimMath(); de.np = symx.ShimNp(); de.max = symx.smax; de.min = symx.smin
t0=time.time()
st = E.explore(run, on_path)
print(st, tot, "wall", time.time()-t0)

import sys, math, tempfile, os
sys.path.insert(0,'/repo')
from leuvenmapmatching.util import dist_euclidean as de, dist_latlon as dl
from leuvenmapmatching.map.inmem import InMemMap
from leuvenmapmatching.map.sqlite import SqliteMap
print("collinear disjoint:", de.distance_segment_to_segment((0,0),(1,0),(5,0),(6,0)))
print("parallel offset   :", de.distance_segment_to_segment((0,0),(1,0),(0.2,1),(0.8,1)))
print("parallel disjoint :", de.distance_segment_to_segment((0,0),(1,0),(3,1),(4,1)))
# latlon box
p=(50.0,4.0); d=100.0
b=dl.box_around_point(p,d)
north=dl.destination_radians(math.radians(50),math.radians(4),0.0,0.9*d)
print("box",b,"north pt lat",math.degrees(north[0]), "inside?", b[0]<=math.degrees(north[0])<=b[2])
# inmem edges_closeto long edge
m=InMemMap("m",graph={1:((0,-10),[2]),2:((0,10),[1])},use_latlon=False)
print("inmem long edge:", m.edges_closeto((0.5,0.0),max_dist=1.0))
m=InMemMap("m",graph={1:((0,-10),[2]),2:((0,0.5),[])},use_latlon=False)
print("inmem start outside box:", m.edges_closeto((0.5,0.0),max_dist=1.0))
# sqlite
d_=tempfile.mkdtemp()
s=SqliteMap("t",use_latlon=False,dir=d_)
s.add_nodes([(1,(1.0,100.0)),(2,(3.0,200.0)),(3,(2.0,150.0))]); s.add_edges([(1,2),(2,3)])
print("sqlite bb", s.bb(), " expected (1,100,3,200)")
s2=SqliteMap.from_file(os.path.join(d_,"t.sqlite"))
print("reopen use_latlon", s2.use_latlon, s2.distance.__module__, s2.__dict__.get('use_latlon'))
# float32 rtree
s=SqliteMap("t2",use_latlon=False,dir=d_)
s.add_nodes([(1,(1e7+0.6,1e7+0.6))])
import io,contextlib
print("sqlite 1e7 node within 0.5:", s.nodes_closeto((1e7+0.7,1e7+0.7),max_dist=0.5), "dist", de.distance((1e7+0.6,1e7+0.6),(1e7+0.7,1e7+0.7)))

import sys
sys.path.insert(0,'/repo')
from typing import Tuple, List
from leuvenmapmatching.util.segment import Segment
from leuvenmapmatching.matcher.base import BaseMatcher

def label_injective(a1: str, a2: str, b1: str, b2: str) -> bool:
    """
    pre: len(a1) <= 3 and len(a2) <= 3 and len(b1) <= 3 and len(b2) <= 3
    post: _
    """
    s = Segment(a1, (0.0, 0.0), a2, (1.0, 1.0))
    t = Segment(b1, (0.0, 0.0), b2, (1.0, 1.0))
    return (s.label == t.label) == ((a1, a2) == (b1, b2))

def only_nodes_adjacent(n0: int, n1: int, n2: int, n3: int) -> bool:
    """
    A path of edge states where consecutive states are equal or chained must give pairwise-distinct-adjacent nodes.
    pre: n0 != n1 and n1 != n2 and n2 != n3
    post: _
    """
    m = BaseMatcher.__new__(BaseMatcher)
    states = [(n0, n1), (n0, n1), (n1, n2), (n2, n3)]
    nodes = m.node_path_to_only_nodes(states)
    ok = all(a != b for a, b in zip(nodes, nodes[1:]))
    return ok and nodes == [n0, n1, n2, n3]

(set-logic QF_NRAT)
(declare-fun lat1 () Real)
(declare-fun lat2 () Real)
(declare-fun dlon () Real)
; street scale: all within ~1.5e-4 rad (1 km), latitude below 60 deg
(assert (and (>= lat1 0.0) (<= lat1 1.0) (>= (- lat2 lat1) (- 0.00015)) (<= (- lat2 lat1) 0.00015) (>= dlon (- 0.00015)) (<= dlon 0.00015)))
(define-fun hav () Real (+ (* (sin (/ (- lat2 lat1) 2.0)) (sin (/ (- lat2 lat1) 2.0))) (* (cos lat1) (cos lat2) (sin (/ dlon 2.0)) (sin (/ dlon 2.0)))))
; equirectangular reference: d^2 ~ dlat^2 + (cos(lat1) dlon)^2 ; claim: 4*hav within 1e-3 relative + 1e-16 abs of it
(define-fun ref () Real (+ (* (- lat2 lat1) (- lat2 lat1)) (* (cos lat1) (cos lat1) dlon dlon)))
(assert (or (> (* 4.0 hav) (+ (* 1.001 ref) 0.0000000000000001)) (< (* 4.0 hav) (- (* 0.999 ref) 0.0000000000000001))))
(check-sat)

"""Prototype symbolic-proxy executor (z3 reals) — scratch probe only."""
import sys, math, time, fractions, itertools
import z3

INF = float('inf')


class Unsupported(Exception):
    pass


class PathAbort(BaseException):
    pass


def _is_num(x):
    return isinstance(x, (int, float, fractions.Fraction)) and not isinstance(x, bool) or type(x).__module__ == 'numpy' and hasattr(x, 'dtype')


def rv(x):
    """Exact z3 real of a concrete number."""
    if isinstance(x, bool):
        x = int(x)
    if isinstance(x, int):
        return z3.RealVal(x)
    if isinstance(x, fractions.Fraction):
        return z3.RealVal(str(x))
    x = float(x)
    if x != x or x in (INF, -INF):
        raise Unsupported(f"non-finite constant {x}")
    fr = fractions.Fraction(repr(x))   # shortest-repr decimal of the double
    return z3.Q(fr.numerator, fr.denominator)


class Sym:
    __slots__ = ('t',)
    __array_priority__ = 1000

    def __init__(self, t):
        self.t = t

    # -- helpers
    @staticmethod
    def lift(o):
        if isinstance(o, Sym):
            return o.t
        if isinstance(o, SymBool):
            return z3.If(o.t, z3.RealVal(1), z3.RealVal(0))
        return rv(o)

    @staticmethod
    def nonfinite(o):
        return isinstance(o, float) and (o != o or o in (INF, -INF)) or (type(o).__module__ == 'numpy' and not math.isfinite(float(o)))

    def _bin(self, o, f, rf=None):
        return Sym(z3.simplify(f(self.t, Sym.lift(o))))

    def __add__(self, o):
        if Sym.nonfinite(o): return float(o)
        return Sym(self.t + Sym.lift(o))
    __radd__ = __add__

    def __sub__(self, o):
        if Sym.nonfinite(o): return -float(o)
        return Sym(self.t - Sym.lift(o))

    def __rsub__(self, o):
        if Sym.nonfinite(o): return float(o)
        return Sym(Sym.lift(o) - self.t)

    def __mul__(self, o):
        if Sym.nonfinite(o): raise Unsupported("sym*inf")
        return Sym(self.t * Sym.lift(o))
    __rmul__ = __mul__

    def __truediv__(self, o):
        if Sym.nonfinite(o):
            return 0.0
        ot = Sym.lift(o)
        if isinstance(o, Sym):
            # division by symbolic: python raises ZeroDivisionError on zero
            if ENGINE.decide(ot == 0):
                raise ZeroDivisionError("float division by zero")
        return Sym(self.t / ot)

    def __rtruediv__(self, o):
        if ENGINE.decide(self.t == 0):
            raise ZeroDivisionError("float division by zero")
        if Sym.nonfinite(o): raise Unsupported("inf/sym")
        return Sym(Sym.lift(o) / self.t)

    def __neg__(self):
        return Sym(-self.t)

    def __pos__(self):
        return self

    def __abs__(self):
        return Sym(z3.If(self.t >= 0, self.t, -self.t))

    def __pow__(self, o):
        if isinstance(o, int) and 0 <= o <= 4:
            r = z3.RealVal(1)
            for _ in range(o):
                r = r * self.t
            return Sym(r)
        raise Unsupported(f"pow {o}")

    def _cmp(self, o, f, inf_pos, inf_neg):
        if Sym.nonfinite(o):
            o = float(o)
            if o != o: return False
            return inf_pos if o > 0 else inf_neg
        return SymBool(f(self.t, Sym.lift(o)))

    def __lt__(self, o): return self._cmp(o, lambda a, b: a < b, True, False)
    def __le__(self, o): return self._cmp(o, lambda a, b: a <= b, True, False)
    def __gt__(self, o): return self._cmp(o, lambda a, b: a > b, False, True)
    def __ge__(self, o): return self._cmp(o, lambda a, b: a >= b, False, True)
    def __eq__(self, o):
        if o is None or isinstance(o, (str, tuple)): return False
        return self._cmp(o, lambda a, b: a == b, False, False)
    def __ne__(self, o):
        if o is None or isinstance(o, (str, tuple)): return True
        return self._cmp(o, lambda a, b: a != b, True, True)

    def __hash__(self):
        return id(self)

    def __bool__(self):
        return ENGINE.decide(self.t != 0)

    def __float__(self):
        raise Unsupported("float(Sym) — realisation at a C boundary")

    def __format__(self, spec):
        return "<sym>"

    def __repr__(self):
        return f"Sym({self.t})"


class SymBool:
    __slots__ = ('t',)

    def __init__(self, t):
        self.t = t

    def __bool__(self):
        return ENGINE.decide(self.t)

    def __and__(self, o):
        return SymBool(z3.And(self.t, o.t if isinstance(o, SymBool) else z3.BoolVal(bool(o))))
    __rand__ = __and__

    def __or__(self, o):
        return SymBool(z3.Or(self.t, o.t if isinstance(o, SymBool) else z3.BoolVal(bool(o))))
    __ror__ = __or__

    def __invert__(self):
        return SymBool(z3.Not(self.t))


def smin(*a):
    if len(a) == 1: a = tuple(a[0])
    if not any(isinstance(x, Sym) for x in a):
        return min(a)
    r = a[0]
    for x in a[1:]:
        if Sym.nonfinite(x):
            if float(x) < 0: return float(x)
            continue
        if Sym.nonfinite(r):
            if float(r) > 0: r = x
            continue
        rt, xt = Sym.lift(r), Sym.lift(x)
        r = Sym(z3.If(xt < rt, xt, rt))
    return r


def smax(*a):
    if len(a) == 1: a = tuple(a[0])
    if not any(isinstance(x, Sym) for x in a):
        return max(a)
    r = a[0]
    for x in a[1:]:
        rt, xt = Sym.lift(r), Sym.lift(x)
        r = Sym(z3.If(xt > rt, xt, rt))
    return r


class ShimMath:
    def __getattr__(self, k):
        return getattr(math, k)

    @staticmethod
    def sqrt(x):
        if not isinstance(x, Sym):
            return math.sqrt(x)
        return ENGINE.sqrt(x)


class ShimNp:
    def __init__(self):
        import numpy
        self._np = numpy
        self.inf = numpy.inf

    def __getattr__(self, k):
        return getattr(self._np, k)

    def isclose(self, a, b, rtol=1e-5, atol=1e-8):
        if not isinstance(a, Sym) and not isinstance(b, Sym):
            return bool(self._np.isclose(a, b, rtol=rtol, atol=atol))
        if rtol == 0:
            dt = Sym.lift(a) - Sym.lift(b)
            return SymBool(z3.And(dt <= rv(atol), -dt <= rv(atol)))
        d = abs(a - b)
        return d <= atol + rtol * abs(b)

    def allclose(self, a, b, rtol=1e-5, atol=1e-8):
        r = True
        for x, y in zip(a, b):
            c = self.isclose(x, y, rtol=rtol, atol=atol)
            if not c:
                return False
        return True


class Engine:
    def __init__(self, timeout_ms=10000, logic=None, lazy=False):
        self.lazy = lazy
        self.timeout_ms = timeout_ms
        self.logic = logic
        self.stats = dict(paths=0, decisions=0, queries=0, solver_s=0.0, unknown=0, forced=0)
        self.reset_path([])
        self.nfresh = 0

    def new_solver(self):
        s = z3.Solver() if self.logic is None else z3.SolverFor(self.logic)
        s.set('timeout', self.timeout_ms)
        return s

    def reset_path(self, prefix):
        self.prefix = prefix
        self.idx = 0
        self.pc = []
        self.solver = self.new_solver()
        self.trace = []
        self.memo = {}
        self.nfresh = 0
        self.sqrt_memo = {}
        self.defs = {}
        self.path_unknown = False

    def fresh(self, name):
        self.nfresh += 1
        return Sym(z3.Real(f"{name}"))

    def aux(self, name):
        self.nfresh += 1
        return z3.Real(f"{name}!{self.nfresh}")

    def assume(self, c):
        t = c.t if isinstance(c, SymBool) else c
        self.pc.append(t)
        self.solver.add(t)

    def sqrt(self, x):
        key = x.t.get_id()
        if key in self.sqrt_memo:
            return self.sqrt_memo[key]
        s = self.aux('sqrt')
        # python raises ValueError on negative
        if self.decide(x.t < 0):
            raise ValueError("math domain error")
        self.defs[s.get_id()] = (s, z3.And(s >= 0, s * s == x.t))
        r = Sym(s)
        r_sq[s.get_id()] = x.t
        self.sqrt_memo[key] = r
        return r

    def check(self, *assumptions):
        t0 = time.time()
        r = self.solver.check(*assumptions)
        self.stats['queries'] += 1
        self.stats['solver_s'] += time.time() - t0
        return r

    def decide(self, cond):
        cond = z3.simplify(cond)
        if z3.is_true(cond): return True
        if z3.is_false(cond): return False
        key = cond.get_id()
        if key in self.memo:
            return self.memo[key]
        self.stats['decisions'] += 1
        if self.idx < len(self.prefix):
            take = self.prefix[self.idx]
        elif self.lazy:
            self.worklist.append(list(self.trace) + [False])
            take = True
        else:
            rt = self.check(cond)
            rf = self.check(z3.Not(cond))
            if rt == z3.unknown or rf == z3.unknown:
                self.stats['unknown'] += 1
                self.path_unknown = True
            ft = rt != z3.unsat
            ff = rf != z3.unsat
            if ft and ff:
                self.worklist.append(list(self.trace) + [False])
                take = True
            elif ft:
                take = True; self.stats['forced'] += 1
            elif ff:
                take = False; self.stats['forced'] += 1
            else:
                raise PathAbort("infeasible path")
        self.trace.append(take)
        self.idx += 1
        c = cond if take else z3.Not(cond)
        self.pc.append(c)
        self.solver.add(c)
        self.memo[key] = take
        return take

    def explore(self, fn, on_path, max_paths=None):
        self.worklist = [[]]
        while self.worklist:
            prefix = self.worklist.pop()
            self.reset_path(prefix)
            try:
                res = ('ok', fn())
            except PathAbort:
                continue
            except Unsupported as e:
                res = ('unsupported', e)
            except Exception as e:
                res = ('exc', e)
            self.stats['paths'] += 1
            on_path(self, res)
            if max_paths and self.stats['paths'] >= max_paths:
                break
        return self.stats

    def prove(self, claim, what=""):
        """claim: z3 Bool that must hold on this path. Returns ('proved'|'cex'|'unknown', model)."""
        r = self.check(z3.Not(claim))
        if r == z3.unsat:
            return 'proved', None
        if r == z3.sat:
            return 'cex', self.solver.model()
        return 'unknown', None


ENGINE = None
r_sq = {}


def vars_of(t, acc):
    stack=[t]; seen=set()
    while stack:
        e=stack.pop()
        if e.get_id() in seen: continue
        seen.add(e.get_id())
        if z3.is_const(e) and e.decl().kind()==z3.Z3_OP_UNINTERPRETED:
            acc[e.get_id()]=e
        stack.extend(e.children())
    return acc


def with_defs(engine, cons):
    """Add definitions (sqrt aux vars) needed by the constraints, transitively."""
    cons=list(cons); done=set(); changed=True
    while changed:
        changed=False
        acc={}
        for c in cons: vars_of(c, acc)
        for vid in acc:
            if vid in engine.defs and vid not in done:
                done.add(vid); cons.append(engine.defs[vid][1]); changed=True
    return cons


def set_engine(e):
    global ENGINE
    ENGINE = e
    return e

import sys, time
sys.path.insert(0,'/repo'); sys.path.insert(0,'/var/tmp/probe')
import z3, symx
from symx import Sym, Engine, set_engine
from leuvenmapmatching.util import dist_euclidean as de
MERGE = sys.argv[1]=='merge'
de.math = symx.ShimMath(); de.np = symx.ShimNp()
if MERGE: de.max = symx.smax; de.min = symx.smin

E = set_engine(Engine(timeout_ms=30000))
def run():
    v = {k: E.fresh(k) for k in ['px','py','ax','ay','bx','by']}
    pi, t = de.project((v['ax'],v['ay']),(v['bx'],v['by']),(v['px'],v['py']))
    return v, pi, t
def fresh_check(cons, logic='QF_NRA', to=30000):
    s = z3.SolverFor(logic) if logic else z3.Solver(); s.set('timeout',to)
    s.add(*cons); t0=time.time(); r=s.check(); return r, time.time()-t0, (s.model() if r==z3.sat else None)
def on_path(E, r):
    kind, val = r
    if kind != 'ok':
        print("path", kind, val); return
    v, pi, t = val
    L = Sym.lift
    u = z3.Real('u')
    ax,ay,bx,by,px,py = [v[k].t for k in ['ax','ay','bx','by','px','py']]
    qx = ax + u*(bx-ax); qy = ay + u*(by-ay)
    d2 = lambda x1,y1,x2,y2: (x1-x2)*(x1-x2)+(y1-y2)*(y1-y2)
    tt = L(t); pix, piy = L(pi[0]), L(pi[1])
    # slack: degenerate branch returns s1 when |a-b|_inf <= 1e-8 -> allow squared slack via separate handling
    eps = z3.Q(2,10**8)   # distance slack 2e-8
    # nearest (squared form): exists u in [0,1] with |p-q(u)| + eps < |p-pi|  <=> use aux dists
    neg = [u>=0,u<=1, d2(px,py,qx,qy) < d2(px,py,pix,piy)]
    for logic in ('QF_NRA', None):
        r2,t2,m = fresh_check(E.pc+neg, logic)
        print(f"  decisions={E.trace} logic={logic} exact-nearest: {r2} {t2:.2f}s")
        if m is not None: print("    cex:", {str(d):m[d] for d in m.decls()})
t0=time.time()
st = E.explore(run, on_path)
print(st, "wall", time.time()-t0)

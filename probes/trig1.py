import z3, time
s1,c1,s2,c2,sl,cl = z3.Reals('s1 c1 s2 c2 sl cl')
shl,chl,shd,chd = z3.Reals('shl chl shd chd')
sd = s2*c1 - c2*s1; cd = c2*c1 + s2*s1
cons=[s1*s1+c1*c1==1, s2*s2+c2*c2==1, sl*sl+cl*cl==1, c1>=0, c2>=0,
      shl*shl+chl*chl==1, 2*shl*chl==sl, chl*chl-shl*shl==cl,
      shd*shd+chd*chd==1, 2*shd*chd==sd, chd*chd-shd*shd==cd]
a = shd*shd + c1*c2*shl*shl
cos_sigma_code = 1-2*a
cos_sigma_ref = s1*s2 + c1*c2*cl
for logic in ('QF_NRA',None):
    s=z3.SolverFor(logic) if logic else z3.Solver(); s.set('timeout',60000); s.add(*cons); s.add(cos_sigma_code!=cos_sigma_ref)
    t0=time.time(); print(logic,"haversine identity:", s.check(), f"{time.time()-t0:.1f}s", flush=True)
sp,cp,sd_,cd_,sq,cq = z3.Reals('sp cp sd cd sq cq')
h=z3.Real('h')
cons=[sp*sp+cp*cp==1, cp>0, sd_*sd_+cd_*cd_==1, sd_>0, cd_>0, sq*sq+cq*cq==1, sq>0, cq>0, cq>cd_, h*h*2==1, h>0]
sin_lat_t = sp*cd_ + cp*sd_*h
sin_lat_q = sp*cq + cp*sq
s=z3.SolverFor('QF_NRA'); s.set('timeout',60000); s.add(*cons); s.add(sin_lat_q > sin_lat_t, cp*cq - sp*sq > 0)
t0=time.time(); r=s.check(); print("box misses a point within radius:", r, f"{time.time()-t0:.1f}s", flush=True)
if r==z3.sat: print(s.model())

import sys, time, logging, itertools, math
sys.path.insert(0,'/repo'); sys.path.insert(0,'/var/tmp/probe')
import z3, symx2 as symx
from symx2 import Sym, Engine, set_engine, lift, rv
from leuvenmapmatching.util import dist_euclidean as de
from leuvenmapmatching.matcher import base as mb
from leuvenmapmatching.matcher.distance import DistanceMatcher
from leuvenmapmatching.matcher.simple import SimpleMatcher
from leuvenmapmatching.map.inmem import InMemMap
logging.getLogger("be.kuleuven.cs.dtai.mapmatching").setLevel(logging.ERROR)
de.math = symx.ShimMath(); de.np = symx.ShimNp(); de.max = symx.smax; de.min = symx.smin
mb.min = symx.smin
gname=sys.argv[1]; T=int(sys.argv[2]); fam=sys.argv[3]
graphs={
 'line2': {"A":((0,0),["B"]),"B":((0,1),["A"])},
 'line3': {"A":((0,0),["B"]),"B":((0,1),["A","C"]),"C":((0,2),["B"])},
 'tri':   {"A":((0,0),["B"]),"B":((0,1),["C"]),"C":((1,0),["A"])},
 'fork':  {"A":((0,0),["B"]),"B":((0,1),["C","D"]),"C":((1,2),[]),"D":((-1,2),[])},
}
G=graphs[gname]
class HalfNormShim:
    def __init__(self, scale): self.scale=scale
    def logpdf(self, x):
        return math.log(math.sqrt(2/math.pi)) - math.log(self.scale) - (x*x)/(2*self.scale**2)
import os
E = set_engine(Engine(timeout_ms=10000, strategy=os.environ.get('STRAT','inc')))
def run():
    m=InMemMap("m",graph=G,use_latlon=False)
    import os
    if os.environ.get('ONED'):
        ys=[0.3,0.7,0.2,0.9]
        path=[(ys[i],E.fresh(f"ox{i}")) for i in range(T)]
    else:
        path=[(E.fresh(f"oy{i}"),E.fresh(f"ox{i}")) for i in range(T)]
    if fam=='simple':
        mt=SimpleMatcher(m,non_emitting_states=False,obs_noise=1.0,avoid_goingback=False)
        mt.obs_noise_dist=HalfNormShim(mt.obs_noise); mt.obs_noise_dist_ne=HalfNormShim(mt.obs_noise_ne)
    else:
        mt=DistanceMatcher(m,non_emitting_states=False,obs_noise=1.0,avoid_goingback=False)
    states,idx=mt.match(path)
    return mt,path,states,idx
# oracle (simple family)
edges=[(u,v) for u,(p,nb) in G.items() for v in nb if v!=u]
def succ(e):
    u,v=e
    return [e]+[(v,w) for w in G[v][1] if w!=v]
def d2_ps(o, a, b):
    oy,ox=o; (ay,ax),(by,bx)=a,b
    l2=(ay-by)**2+(ax-bx)**2
    t=((oy-ay)*(by-ay)+(ox-ax)*(bx-ax))/rv(l2)
    t=z3.If(t<0,0,z3.If(t>1,1,t))
    py=ay+t*(by-ay); px=ax+t*(bx-ax)
    return (oy-py)*(oy-py)+(ox-px)*(ox-px)
tot={}
qt=[0.0]
def on_path(E,r):
    kind,val=r
    if kind!='ok':
        k=f"{kind}:{type(val).__name__}:{val}"; tot[k]=tot.get(k,0)+1; return
    mt,path,states,idx=val
    if fam!='simple':
        tot['ok']=tot.get('ok',0)+1; return
    o=[(lift(p[0]),lift(p[1])) for p in path]
    em={(e,t): -d2_ps(o[t],G[e[0]][0],G[e[1]][0])/2 for e in edges for t in range(T)}
    lt=rv(math.log(0.9))
    walks=[[e] for e in edges]
    for t in range(1,T):
        walks=[w+[s] for w in walks for s in succ(w[-1])]
    def score(w):
        s=em[(w[0],0)]
        for t in range(1,T):
            s=s+em[(w[t],t)]+(0 if w[t]==w[t-1] else lt)
        return s
    L=lift(mt.lattice_best[-1].logprob)
    got=[tuple(m.edge_m.l1 for m in [x]) + (x.edge_m.l2,) for x in mt.lattice_best]
    tol=z3.Q(1,10**9); sg=score(got); claim=z3.And(idx==T-1, L<=sg+tol, L>=sg-tol, *[L>=score(w)-tol for w in walks])
    t0=time.time()
    s=z3.SolverFor('QF_NRA'); s.set('timeout',20000); s.add(*E.full_pc()); s.add(z3.Not(claim)); r=s.check(); qt[0]+=time.time()-t0
    k={'unsat':'proved','sat':'CEX','unknown':'unknown'}[str(r)]
    tot[k]=tot.get(k,0)+1
    if r==z3.sat: print("CEX", s.model(), got)
    if E.stats['paths']%100==0: print(E.stats['paths'], tot, f"assert_s={qt[0]:.1f}", E.stats, flush=True)
t0=time.time()
st=E.explore(run,on_path,max_paths=int(sys.argv[4]) if len(sys.argv)>4 else None)
E.qlog.sort(reverse=True); print("slowest", E.qlog[:8]); print("FINAL",st,tot,f"assert_s={qt[0]:.1f}","wall",time.time()-t0, "walks", len(edges))

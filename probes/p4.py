import sys, logging
sys.path.insert(0,'/repo')
from leuvenmapmatching.map.inmem import InMemMap
from leuvenmapmatching.matcher.simple import SimpleMatcher
from leuvenmapmatching.matcher.distance import DistanceMatcher
lg=logging.getLogger("be.kuleuven.cs.dtai.mapmatching"); lg.addHandler(logging.NullHandler())
g={"A":((0,0),["B"]),"B":((0,1),["A","C"]),"C":((0,2),["B"])}
def run(level, cls, path, **kw):
    lg.setLevel(level)
    m=InMemMap("m",graph=g,use_latlon=False)
    mt=cls(m,**kw)
    try:
        r=mt.match(path)
        return r, [ (x.key, round(x.logprob,6), x.stop) for x in (mt.lattice_best or [])]
    except Exception as e:
        return "RAISED "+repr(e), None
cases=[(DistanceMatcher,[(0.9,0.5),(0.1,1.5)], dict(max_dist_init=5,max_dist=0.5,obs_noise=1.0,non_emitting_states=False)),
       (DistanceMatcher,[(0.9,0.5),(0.1,1.5)], dict(min_prob_norm=0.99,obs_noise=1.0,non_emitting_states=False)),
       (DistanceMatcher,[(0.1,0.5),(0.9,1.5),(0.1,1.6)], dict(max_dist=0.5,max_dist_init=1,obs_noise=1.0,non_emitting_states=False)),
       (DistanceMatcher,[(0.1,0.5),(0.9,1.5),(0.1,1.6)], dict(max_dist=0.5,max_dist_init=1,obs_noise=1.0,non_emitting_states=True)),
       (SimpleMatcher,[(0.1,0.0),(0.1,1.0),(0.1,2.0)], dict(max_dist=0.5,obs_noise=1.0,non_emitting_states=True,only_edges=False)),
       (SimpleMatcher,[(0.1,0.0),(0.3,1.0),(0.1,2.0)], dict(max_dist=0.5,obs_noise=1.0,non_emitting_states=False,only_edges=False)),
      ]
for cls,path,kw in cases:
    a=run(logging.ERROR,cls,path,**kw); b=run(logging.DEBUG,cls,path,**kw)
    print("C19",cls.__name__, path, kw, "\n   ERROR:",a,"\n   DEBUG:",b, "\n   ", "SAME" if a==b else "DIFF")

"""G-abs probe: real matcher code over an abstract map (fresh symbolic distances), LRA."""
import sys, time, logging, itertools, math, os
sys.path.insert(0,'/repo'); sys.path.insert(0,'/var/tmp/probe')
import z3, symx2 as symx
from symx2 import Sym, Engine, set_engine, lift, rv
from leuvenmapmatching.matcher import base as mb
from leuvenmapmatching.matcher.distance import DistanceMatcher
from leuvenmapmatching.matcher.simple import SimpleMatcher
from leuvenmapmatching.map.base import BaseMap
logging.getLogger("be.kuleuven.cs.dtai.mapmatching").setLevel(logging.ERROR)
mb.min = symx.smin
gname=sys.argv[1]; fam='simple'; NE=False; T=2
graphs={
 'line2': {"A":["B"],"B":["A"]},
 'line3': {"A":["B"],"B":["A","C"],"C":["B"]},
 'tri':   {"A":["B"],"B":["C"],"C":["A"]},
 'fork':  {"A":["B"],"B":["C","D"],"C":[],"D":[]},
 'sq':    {"A":["B","D"],"B":["A","C"],"C":["B","D"],"D":["C","A"]},
 'k3':    {"A":["B","C"],"B":["A","C"],"C":["A","B"]},
}
G=graphs[gname]
class P(tuple):
    """opaque point"""
    def __new__(cls,name):
        o=tuple.__new__(cls,(name+".y",name+".x")); o.name=name; return o
class HalfNormShim:
    def __init__(self, scale): self.scale=scale
    def logpdf(self, x):
        return math.log(math.sqrt(2/math.pi)) - math.log(self.scale) - (x*x)/(2*self.scale**2)
E = set_engine(Engine(timeout_ms=10000, strategy='inc'))
class AbsMap(BaseMap):
    def __init__(self):
        super().__init__("abs",use_latlon=False)
        self.memo={}
        self.distance=self._distance; self.distance_point_to_segment=self._dps; self.distance_segment_to_segment=self._dss
        self.loc={n:P(n) for n in G}
    def _sq(self,key):
        if key not in self.memo:
            q=z3.Real("q_"+key); E.assume(q>=0)
            s=z3.Real("d_"+key); E.defs[s.get_id()]=z3.And(s>=0,s*s==q)
            self.memo[key]=Sym(s,sq=q)
        return self.memo[key]
    def _t(self,key):
        if key not in self.memo:
            t=z3.Real("t_"+key); E.assume(z3.And(t>=0,t<=1)); self.memo[key]=Sym(t)
        return self.memo[key]
    def _distance(self,p1,p2):
        a,b=sorted([p1.name,p2.name])
        if a==b: return 0.0
        return self._sq(f"pp[{a}|{b}]")
    def _dps(self,p,s1,s2,delta=0.0):
        k=f"ps[{p.name}|{s1.name}>{s2.name}]"
        return self._sq(k), P("proj"+k), self._t(k)
    def _dss(self,f1,f2,t1,t2):
        k=f"ss[{f1.name}>{f2.name}|{t1.name}>{t2.name}]"
        return self._sq(k), P("pf"+k), P("pt"+k), self._t("f"+k), self._t("t"+k)
    def node_coordinates(self,n): return self.loc[n]
    def nodes_nbrto(self,n): return [(m,self.loc[m]) for m in G[n]+[n]]
    def edges_nbrto(self,e):
        l1,l2=e; return [(l2,self.loc[l2],l3,p3) for l3,p3 in self.nodes_nbrto(l2)]
    def edges_closeto(self,loc,max_dist=None,max_elmt=None):
        res=[]
        for u in G:
            for v in G[u]:
                if u==v: continue
                d,pi,ti=self._dps(loc,self.loc[u],self.loc[v])
                if d<max_dist: res.append((d,u,self.loc[u],v,self.loc[v],pi,ti))
        return res
    def nodes_closeto(self,loc,max_dist=None,max_elmt=None): raise NotImplementedError
    def bb(self): pass
    def labels(self): return list(G)
    def size(self): return len(G)
    def all_nodes(self,bb=None): pass
    def all_edges(self,bb=None): pass

from leuvenmapmatching.matcher.base import LatticeColumn
from leuvenmapmatching.util.segment import Segment
edges=[(u,v) for u in G for v in G[u] if v!=u]
def succ(e):
    u,v=e
    return [e]+[(v,w) for w in G[v] if w!=v]
def run():
    m=AbsMap()
    path=[P("o0"),P("o1")]          # observation t-1 and t (indices 0,1 stand for t-1,t)
    mt=SimpleMatcher(m,non_emitting_states=False,obs_noise=1.0,avoid_goingback=False)
    mt.obs_noise_dist=HalfNormShim(mt.obs_noise); mt.obs_noise_dist_ne=HalfNormShim(mt.obs_noise_ne)
    mlog=z3.Real('min_logprob_norm'); E.assume(mlog<=0); mt.min_logprob_norm=Sym(mlog)
    md=z3.Real('max_dist_sq'); E.assume(md>=0)
    smd=z3.Real('max_dist'); E.defs[smd.get_id()]=z3.And(smd>=0,smd*smd==md); mt.max_dist=Sym(smd,sq=md)
    mt.path=path; mt.lattice={0:LatticeColumn(0),1:LatticeColumn(1)}
    L=z3.Int('len'); 
    pre={}
    for (u,v) in edges:
        present=z3.Bool(f"present_{u}{v}")
        if not E.decide(present): continue
        lp=z3.Real(f"lp_{u}{v}"); E.assume(lp<=0)
        em=Segment(u,m.loc[u],v,m.loc[v]); em.pi=P(f"pi_{u}{v}"); em.ti=Sym(z3.Real(f"ti_{u}{v}"))
        eo=Segment("O0",path[0])
        length=3   # arbitrary fixed chain length >=1 (symbolic int would need Int/Real mixing)
        mm=mt.matching(mt,em,eo,logprob=Sym(lp),logprobe=Sym(lp),logprobne=0,obs=0,length=length,dist_obs=0.0)
        mt.lattice[0].upsert(mm); pre[(u,v)]=lp
    mt._match_states(1)
    return m,mt,pre
tot={}; qt=[0.0]
def on_path(E,r):
    kind,val=r
    if kind!='ok':
        k=f"{kind}:{type(val).__name__}:{val}"; tot[k]=tot.get(k,0)+1; return
    m,mt,pre=val
    col=mt.lattice[1].o[0] if len(mt.lattice[1].o)>0 else {}
    lt=rv(math.log(0.9)); tol=z3.Q(1,10**9)
    claims=[]
    mlog=lift(mt.min_logprob_norm); md=mt.max_dist.sq
    for s in edges:
        q=m._sq(f"ps[o1|{s[0]}>{s[1]}]").sq
        cands=[]
        for p in pre:
            if s in succ(p):
                sc=pre[p]+(-q/2)+(0 if p==s else lt)
                adm=z3.And(sc/4>=mlog, q<=md)
                cands.append((sc,adm))
        key=(s[0],s[1],1,0)
        if key in col:
            got=lift(col[key].logprob)
            claims.append(z3.Or(*[z3.And(adm, got<=sc+tol, got>=sc-tol) for sc,adm in cands]) if cands else z3.BoolVal(False))
            for sc,adm in cands: claims.append(z3.Implies(adm, got>=sc-tol))
            claims.append(z3.BoolVal(col[key].length==4))
        else:
            for sc,adm in cands: claims.append(z3.Not(adm))
    t0=time.time(); s_=z3.Solver(); s_.set('timeout',20000); s_.add(*E.full_pc()); s_.add(z3.Not(z3.And(*claims))); r_=s_.check(); qt[0]+=time.time()-t0
    k={'unsat':'proved','sat':'CEX','unknown':'unknown'}[str(r_)]; tot[k]=tot.get(k,0)+1
    if r_==z3.sat and tot[k]<3: print("CEX",s_.model(), list(col))
t00=time.time()
st=E.explore(run,on_path)
print("FINAL",st,tot,f"assert_s={qt[0]:.1f}","wall",time.time()-t00,"edges",len(edges))
